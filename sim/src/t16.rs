//! Wire tier (C16): three real nodes with their real QUIC endpoints on loopback UDP and the
//! production inbound handlers (uni / bi streams, serve_sync); the simulator is a fourth
//! peer with its own real `Transport` and sends hand-built frames declaring any cluster id
//! (equal, different, absent), opens sync sessions, changes cluster ids at run time while
//! connections exist, fills membership tables mixing clusters and lets the production
//! `handle_sync` and broadcast loop choose their partners.
//!
//! Outcomes are made timing-independent by sentinels (a frame the receiver must accept,
//! delivered last by the handler) and by observation logs written by guarded hooks before the
//! production filters.

use std::{
    collections::BTreeSet,
    net::SocketAddr,
    path::Path,
    time::{Duration, Instant},
};

use bytes::{BufMut, Bytes, BytesMut};
use klukai_agent::transport::Transport;
use klukai_types::{
    actor::{Actor, ActorId, ClusterId},
    base::CrsqlDbVersion,
    broadcast::{BiPayload, BiPayloadV1, BroadcastV1, ChangeV1, Changeset, UniPayload, UniPayloadV1},
    sync::{SyncMessage, SyncMessageV1, SyncRejectionV1},
    verif,
};
use serde::{Deserialize, Serialize};
use serde_json::json;
use speedy::Writable;
use tokio::io::AsyncWriteExt;
use tokio_util::codec::{FramedRead, LengthDelimitedCodec};

use crate::{
    SimError,
    model::SCHEMA_T1,
    node::{Knobs, Node, R, seeded_actor, stmt},
    rng::Rng,
    trace::{RunOutcome, Stats, Violation, fnv},
};

#[derive(Serialize, Deserialize, Clone, Debug, PartialEq)]
pub struct Cfg {
    pub clusters: Vec<u16>,
    pub real_bcast: bool,
}

#[derive(Serialize, Deserialize, Clone, Debug, PartialEq)]
#[serde(tag = "op")]
pub enum Ev {
    /// one uni stream to node `to`: frames declaring `cluster` (None = field absent) carrying tag
    Uni { to: usize, frames: Vec<(Option<u16>, u32)> },
    /// one uni stream kept open across a cluster change of the receiver: `first` is written,
    /// the receiver's cluster id becomes `id`, `rest` is written, the stream ends
    UniSplit { to: usize, first: Vec<(Option<u16>, u32)>, id: u16, rest: Vec<(Option<u16>, u32)> },
    /// a sync session towards `to` declaring `cluster`
    Sync { to: usize, cluster: Option<u16> },
    /// what `corrosion cluster set-id` does to the running agent
    SetCluster { node: usize, id: u16 },
    /// the production sync client of `node` picks its partners from its member table
    HandleSync { node: usize },
    /// a local transaction; the production broadcast loop picks the targets
    Write { node: usize },
}

fn vio(class: &str, detail: serde_json::Value) -> Violation {
    Violation::new("C16", class, detail)
}

pub fn generate(seed: u64) -> (Cfg, Vec<Ev>) {
    let mut r = Rng::new(seed).fork("t16");
    let clusters: Vec<u16> = match r.below(4) {
        0 => vec![0, 1, 2],
        1 => vec![0, 0, 1],
        2 => vec![1, 2, 1],
        _ => vec![r.below(3) as u16, r.below(3) as u16, r.below(3) as u16],
    };
    let cfg = Cfg { clusters, real_bcast: r.chance(0.4) };
    let mut evs = vec![];
    let mut tag = 1u32;
    let n = r.range(4, 14);
    for _ in 0..n {
        if r.chance(0.12) {
            let mut mk = |r: &mut Rng, tag: &mut u32| {
                let k = r.range(1, 3);
                let mut v = vec![];
                for _ in 0..k {
                    v.push((if r.chance(0.15) { None } else { Some(r.below(3) as u16) }, *tag));
                    *tag += 1;
                }
                v
            };
            let first = mk(&mut r, &mut tag);
            let rest = mk(&mut r, &mut tag);
            evs.push(Ev::UniSplit { to: r.usize_below(3), first, id: r.below(3) as u16, rest });
            continue;
        }
        match r.weighted(&[40, 25, 12, 12, if cfg.real_bcast { 20 } else { 0 }]) {
            0 => {
                let k = r.range(1, 5);
                let mut frames = vec![];
                for _ in 0..k {
                    let c = if r.chance(0.2) { None } else { Some(r.below(3) as u16) };
                    frames.push((c, tag));
                    tag += 1;
                }
                evs.push(Ev::Uni { to: r.usize_below(3), frames });
            }
            1 => evs.push(Ev::Sync { to: r.usize_below(3), cluster: if r.chance(0.2) { None } else { Some(r.below(3) as u16) } }),
            2 => evs.push(Ev::SetCluster { node: r.usize_below(3), id: r.below(3) as u16 }),
            3 => evs.push(Ev::HandleSync { node: r.usize_below(3) }),
            _ => evs.push(Ev::Write { node: r.usize_below(3) }),
        }
    }
    (cfg, evs)
}

fn frame(payload: &[u8]) -> Bytes {
    let mut b = BytesMut::with_capacity(payload.len() + 4);
    b.put_u32(payload.len() as u32);
    b.put_slice(payload);
    b.freeze()
}

fn dummy_actor() -> ActorId {
    ActorId::from_bytes([0xD1; 16])
}

fn uni_frame(cluster: Option<u16>, tag: u32) -> R<Bytes> {
    let cv = ChangeV1 {
        actor_id: dummy_actor(),
        changeset: Changeset::Empty { versions: CrsqlDbVersion(tag as u64)..=CrsqlDbVersion(tag as u64), ts: None },
    };
    let p = UniPayload::V1 { data: UniPayloadV1::Broadcast(BroadcastV1::Change(cv)), cluster_id: ClusterId(cluster.unwrap_or(0)) };
    let mut bytes = p.write_to_vec().map_err(|e| SimError::Harness(format!("encode: {e}")))?;
    if cluster.is_none() {
        // the field is the last one and defaults on EOF: an old peer simply does not send it
        bytes.truncate(bytes.len() - 2);
    }
    Ok(frame(&bytes))
}

struct World {
    nodes: Vec<Node>,
    addrs: Vec<SocketAddr>,
    peer: Transport,
    /// a second, raw QUIC client of the simulator (streams written piecewise)
    raw: quinn::Endpoint,
    raw_conns: std::collections::BTreeMap<usize, quinn::Connection>,
    stats: Stats,
    log: Vec<String>,
    next_sentinel: u32,
}

impl World {
    fn cluster_of(&self, n: usize) -> u16 {
        self.nodes[n].agent.cluster_id().0
    }

    /// every node knows every other node, with the cluster ids they have now
    fn refresh_members(&mut self) {
        for i in 0..self.nodes.len() {
            let mut members = self.nodes[i].agent.members().write();
            for j in 0..self.nodes.len() {
                if i == j {
                    continue;
                }
                let other = &self.nodes[j];
                let ts = other.agent.clock().new_timestamp().into();
                let actor = Actor::new(other.agent.actor_id(), self.addrs[j], ts, other.agent.cluster_id());
                members.add_member(&actor);
                // close enough to be a priority (ring 0) broadcast target
                for _ in 0..3 {
                    members.add_rtt(self.addrs[j], Duration::from_millis(1));
                }
            }
        }
    }

    /// received tags at node `n` until `sentinel` arrives (or the time is up) plus a grace period
    async fn collect(&mut self, n: usize, sentinel: u32) -> (BTreeSet<u32>, bool) {
        let mut got = BTreeSet::new();
        let start = Instant::now();
        let mut seen_sentinel = false;
        let mut grace: Option<Instant> = None;
        loop {
            for (cv, _) in self.nodes[n].drain_changes() {
                if cv.actor_id == dummy_actor() {
                    let t = cv.versions().start().0 as u32;
                    if t == sentinel {
                        seen_sentinel = true;
                    } else {
                        got.insert(t);
                    }
                }
            }
            if seen_sentinel && grace.is_none() {
                grace = Some(Instant::now());
            }
            if let Some(g) = grace {
                if g.elapsed() > Duration::from_millis(30) {
                    break;
                }
            }
            if start.elapsed() > Duration::from_millis(1500) {
                break;
            }
            tokio::time::sleep(Duration::from_millis(2)).await;
        }
        (got, seen_sentinel)
    }
}

pub async fn run_events(seed: u64, cfg: Cfg, events: &[Ev], base: &Path, tag: &str) -> R<RunOutcome> {
    let dir = base.join(format!("t16-{}-{seed:016x}-{tag}", std::process::id()));
    let _ = std::fs::remove_dir_all(&dir);
    std::fs::create_dir_all(&dir)?;
    let _ = verif::served_take();
    let _ = verif::uni_seen_take();
    let mut nodes = vec![];
    let mut addrs = vec![];
    for i in 0..3 {
        let mut knobs = Knobs::default();
        knobs.real_bcast = cfg.real_bcast;
        let n = Node::boot(i, dir.join(format!("n{i}")), seeded_actor(seed, i), knobs).await?;
        let (st, resp) = n.schema(SCHEMA_T1.iter().map(|x| x.to_string()).collect()).await;
        if st != 200 {
            return Err(SimError::Harness(format!("schema: {:?}", resp.results)));
        }
        n.agent.set_cluster_id(ClusterId(cfg.clusters[i % cfg.clusters.len()]));
        addrs.push(n.agent.gossip_addr());
        nodes.push(n);
    }
    let (rtt_tx, _rtt_rx) = tokio::sync::mpsc::channel(1024);
    let peer = Transport::new(&nodes[0].agent.config().gossip, rtt_tx).await.map_err(|e| SimError::Harness(format!("peer transport: {e}")))?;
    let raw = klukai_agent::api::peer::gossip_client_endpoint(&nodes[0].agent.config().gossip)
        .await
        .map_err(|e| SimError::Harness(format!("raw endpoint: {e}")))?;
    let mut w = World { nodes, addrs, peer, raw, raw_conns: Default::default(), stats: Stats::default(), log: vec![], next_sentinel: 1_000_000 };
    w.refresh_members();
    let mut violation = None;
    let mut done = vec![];
    for (i, ev) in events.iter().enumerate() {
        done.push(ev.clone());
        w.stats.steps += 1;
        let r = exec(&mut w, ev).await?;
        if let Err(mut v) = r {
            v.step = i + 1;
            violation = Some(v);
            break;
        }
    }
    for n in w.nodes.iter() {
        n.trip().await;
    }
    let mut stats = w.stats.clone();
    let mut sh = 0xcbf2_9ce4_8422_2325;
    for e in &done {
        let s = match e {
            Ev::UniSplit { to, first, id, rest } => format!("V{to}:{}>{id}>{}", first.len(), rest.len()),
            Ev::Uni { to, frames } => format!("U{to}:{}", frames.iter().map(|(c, _)| c.map(|x| x.to_string()).unwrap_or("-".into())).collect::<Vec<_>>().join("")),
            Ev::Sync { to, cluster } => format!("S{to}{cluster:?}"),
            Ev::SetCluster { node, id } => format!("C{node}{id}"),
            Ev::HandleSync { node } => format!("H{node}"),
            Ev::Write { node } => format!("W{node}"),
        };
        fnv(&mut sh, s.as_bytes());
    }
    stats.schedule_hash = sh;
    stats.nontrivial = stats.faults.values().sum::<u64>() > 0;
    stats.converged = violation.is_none();
    let mut h = 0xcbf2_9ce4_8422_2325;
    for l in &w.log {
        fnv(&mut h, l.as_bytes());
    }
    drop(w);
    let _ = std::fs::remove_dir_all(&dir);
    Ok(RunOutcome {
        seed,
        tier: "t16".into(),
        config: serde_json::to_value(&cfg).unwrap(),
        events: done.iter().map(|e| serde_json::to_value(e).unwrap()).collect(),
        violation,
        known: vec![],
        stats,
        log_digest: h,
    })
}

async fn exec(w: &mut World, ev: &Ev) -> R<Result<(), Violation>> {
    match ev {
        Ev::Uni { to, frames } => {
            w.stats.ev("Uni");
            let own = w.cluster_of(*to);
            let sentinel = w.next_sentinel;
            w.next_sentinel += 1;
            // the handler forwards a stream's accepted frames in reverse order: the sentinel (first
            // in the stream, declaring the receiver's cluster) is forwarded last
            let mut data = BytesMut::new();
            data.extend_from_slice(&uni_frame(Some(own), sentinel)?);
            for (c, t) in frames {
                data.extend_from_slice(&uni_frame(*c, *t)?);
                match c {
                    None => w.stats.fault("frame-without-cluster-field"),
                    Some(x) if *x == own => w.stats.fault("frame-same-cluster"),
                    Some(_) => w.stats.fault("frame-other-cluster"),
                }
            }
            let _ = w.nodes[*to].drain_changes();
            let _ = verif::uni_seen_take();
            if let Err(e) = w.peer.send_uni(w.addrs[*to], data.freeze()).await {
                return Err(SimError::Harness(format!("send_uni: {e}")));
            }
            let (got, seen_sentinel) = w.collect(*to, sentinel).await;
            w.stats.oracle_checks += 1;
            let expected: BTreeSet<u32> = frames.iter().filter(|(c, _)| c.unwrap_or(0) == own).map(|(_, t)| *t).collect();
            w.log.push(format!("uni -> n{to} (cluster {own}): accepted {got:?}, sentinel {seen_sentinel}"));
            let foreign: Vec<u32> = got.difference(&expected).copied().collect();
            if !foreign.is_empty() {
                let declared: Vec<Option<u16>> = frames.iter().filter(|(_, t)| foreign.contains(t)).map(|(c, _)| *c).collect();
                return Ok(Err(vio(
                    "broadcast-from-another-cluster-accepted",
                    json!({"receiver": to, "receiver_cluster": own, "declared_clusters_of_accepted_frames": declared, "tags": foreign}),
                )));
            }
            if !seen_sentinel {
                w.stats.probe("c16.same-cluster-sentinel-not-delivered");
            } else {
                w.stats.probe("c16.uni-stream-checked");
            }
            Ok(Ok(()))
        }
        Ev::UniSplit { to, first, id, rest } => {
            w.stats.ev("UniSplit");
            w.stats.fault("cluster-id-changed-while-a-stream-is-open");
            let conn = match w.raw_conns.get(to) {
                Some(c) if c.close_reason().is_none() => c.clone(),
                _ => {
                    let c = w
                        .raw
                        .connect(w.addrs[*to], &w.addrs[*to].ip().to_string())
                        .map_err(|e| SimError::Harness(format!("connect: {e}")))?
                        .await
                        .map_err(|e| SimError::Harness(format!("connect: {e}")))?;
                    w.raw_conns.insert(*to, c.clone());
                    c
                }
            };
            let _ = w.nodes[*to].drain_changes();
            let _ = verif::uni_seen_take();
            let own_before = w.cluster_of(*to);
            let mut stream = conn.open_uni().await.map_err(|e| SimError::Harness(format!("open_uni: {e}")))?;
            let mut data = BytesMut::new();
            for (c, t) in first {
                data.extend_from_slice(&uni_frame(*c, *t)?);
            }
            stream.write_all(&data).await.map_err(|e| SimError::Harness(format!("uni write: {e}")))?;
            let _ = stream.flush().await;
            // wait until the handler has looked at every frame of the first part
            let start = Instant::now();
            let mut seen = 0;
            while seen < first.len() {
                seen += verif::uni_seen_take().len();
                if start.elapsed() > Duration::from_secs(5) {
                    return Err(SimError::Harness("first part of the stream was not read by the handler".into()));
                }
                tokio::time::sleep(Duration::from_millis(1)).await;
            }
            w.nodes[*to].agent.set_cluster_id(ClusterId(*id));
            w.refresh_members();
            let own_after = *id;
            let sentinel = w.next_sentinel;
            w.next_sentinel += 1;
            let mut data = BytesMut::new();
            for (c, t) in rest {
                data.extend_from_slice(&uni_frame(*c, *t)?);
            }
            // (the handler forwards accepted frames when the stream ends, last frame first)
            stream.write_all(&data).await.map_err(|e| SimError::Harness(format!("uni write: {e}")))?;
            let _ = stream.finish();
            // a separate stream with the sentinel, after the handler saw the rest
            let start = Instant::now();
            let mut seen = 0;
            while seen < rest.len() {
                seen += verif::uni_seen_take().len();
                if start.elapsed() > Duration::from_secs(5) {
                    return Err(SimError::Harness("second part of the stream was not read by the handler".into()));
                }
                tokio::time::sleep(Duration::from_millis(1)).await;
            }
            if let Err(e) = w.peer.send_uni(w.addrs[*to], uni_frame(Some(own_after), sentinel)?).await {
                return Err(SimError::Harness(format!("send_uni: {e}")));
            }
            let (mut got, seen_sentinel) = w.collect(*to, sentinel).await;
            // the split stream's task may forward a moment after the sentinel's
            tokio::time::sleep(Duration::from_millis(40)).await;
            for (cv, _) in w.nodes[*to].drain_changes() {
                if cv.actor_id == dummy_actor() {
                    got.insert(cv.versions().start().0 as u32);
                }
            }
            w.stats.oracle_checks += 1;
            let mut expected: BTreeSet<u32> = first.iter().filter(|(c, _)| c.unwrap_or(0) == own_before).map(|(_, t)| *t).collect();
            expected.extend(rest.iter().filter(|(c, _)| c.unwrap_or(0) == own_after).map(|(_, t)| *t));
            w.log.push(format!("split uni -> n{to} (cluster {own_before} -> {own_after}): accepted {got:?}, sentinel {seen_sentinel}"));
            let foreign: Vec<u32> = got.difference(&expected).copied().collect();
            if !foreign.is_empty() {
                return Ok(Err(vio(
                    "broadcast-from-another-cluster-accepted",
                    json!({"receiver": to, "receiver_cluster_when_the_stream_opened": own_before, "receiver_cluster_when_the_frames_arrived": own_after, "tags": foreign,
                           "first_part": first, "second_part": rest}),
                )));
            }
            w.stats.probe("c16.split-stream-checked");
            Ok(Ok(()))
        }
        Ev::Sync { to, cluster } => {
            w.stats.ev("Sync");
            let own = w.cluster_of(*to);
            let declared = cluster.unwrap_or(0);
            let (mut tx, rx) = match w.peer.open_bi(w.addrs[*to]).await {
                Ok(x) => x,
                Err(e) => return Err(SimError::Harness(format!("open_bi: {e}"))),
            };
            let p = BiPayload::V1 {
                data: BiPayloadV1::SyncStart { actor_id: dummy_actor(), trace_ctx: Default::default() },
                cluster_id: ClusterId(declared),
            };
            let mut bytes = p.write_to_vec().map_err(|e| SimError::Harness(format!("encode: {e}")))?;
            if cluster.is_none() {
                bytes.truncate(bytes.len() - 2);
                w.stats.fault("sync-start-without-cluster-field");
            } else if declared == own {
                w.stats.fault("sync-start-same-cluster");
            } else {
                w.stats.fault("sync-start-other-cluster");
            }
            let mut out = BytesMut::new();
            out.extend_from_slice(&frame(&bytes));
            // the clock message a real client sends next
            let clock = SyncMessage::V1(SyncMessageV1::Clock(w.nodes[*to].agent.clock().new_timestamp().into()));
            out.extend_from_slice(&frame(&clock.write_to_vec().map_err(|e| SimError::Harness(format!("encode: {e}")))?));
            tx.write_all(&out).await.map_err(|e| SimError::Harness(format!("bi write: {e}")))?;
            let _ = tx.flush().await;
            let mut read = FramedRead::new(rx, LengthDelimitedCodec::builder().max_frame_length(100 * 1_024 * 1_024).new_codec());
            let mut msgs = vec![];
            let start = Instant::now();
            use tokio_stream::StreamExt;
            while start.elapsed() < Duration::from_millis(2500) && msgs.len() < 4 {
                match tokio::time::timeout(Duration::from_millis(700), read.next()).await {
                    Ok(Some(Ok(mut b))) => match SyncMessage::from_buf(&mut b) {
                        Ok(m) => msgs.push(m),
                        Err(e) => return Err(SimError::Harness(format!("decode: {e}"))),
                    },
                    Ok(Some(Err(_))) | Ok(None) => break,
                    Err(_) => {
                        if !msgs.is_empty() {
                            break;
                        }
                    }
                }
            }
            let _ = tx.finish();
            w.stats.oracle_checks += 1;
            let kinds: Vec<&str> = msgs
                .iter()
                .map(|m| match m {
                    SyncMessage::V1(SyncMessageV1::State(_)) => "state",
                    SyncMessage::V1(SyncMessageV1::Changeset(_)) => "changeset",
                    SyncMessage::V1(SyncMessageV1::Clock(_)) => "clock",
                    SyncMessage::V1(SyncMessageV1::Rejection(SyncRejectionV1::DifferentCluster)) => "rejection-different-cluster",
                    SyncMessage::V1(SyncMessageV1::Rejection(_)) => "rejection-other",
                    SyncMessage::V1(SyncMessageV1::Request(_)) => "request",
                })
                .collect();
            w.log.push(format!("sync -> n{to} (cluster {own}) declaring {cluster:?}: {kinds:?}"));
            if declared != own {
                if kinds.first() != Some(&"rejection-different-cluster") {
                    return Ok(Err(vio("cross-cluster-sync-not-rejected-first", json!({"server": to, "server_cluster": own, "declared": cluster, "got": kinds}))));
                }
                if kinds.iter().any(|k| *k == "state" || *k == "changeset") {
                    return Ok(Err(vio("cross-cluster-sync-served-data", json!({"server": to, "server_cluster": own, "declared": cluster, "got": kinds}))));
                }
                w.stats.probe("c16.cross-cluster-sync-rejected");
            } else {
                if kinds.iter().any(|k| k.starts_with("rejection-different")) {
                    w.stats.probe("c16.same-cluster-sync-rejected");
                } else {
                    w.stats.probe("c16.same-cluster-sync-served");
                }
            }
            Ok(Ok(()))
        }
        Ev::SetCluster { node, id } => {
            w.stats.ev("SetCluster");
            w.stats.fault("cluster-id-changed-while-connections-exist");
            w.nodes[*node].agent.set_cluster_id(ClusterId(*id));
            w.refresh_members();
            w.log.push(format!("n{node} cluster := {id}"));
            Ok(Ok(()))
        }
        Ev::HandleSync { node } => {
            w.stats.ev("HandleSync");
            let _ = verif::served_take();
            let own = w.cluster_of(*node);
            let me = w.nodes[*node].agent.actor_id().to_bytes();
            let n = &w.nodes[*node];
            let res = tokio::time::timeout(Duration::from_secs(20), klukai_agent::agent::verif::handle_sync(&n.agent, &n.bookie, &n.transport)).await;
            // sessions are opened before handle_sync returns; give the servers' tasks a moment
            tokio::time::sleep(Duration::from_millis(30)).await;
            let served = verif::served_take();
            w.stats.oracle_checks += 1;
            w.log.push(format!("handle_sync n{node}: {} sessions, result ok={}", served.len(), matches!(res, Ok(Ok(_)))));
            for (server, client, declared, server_cluster) in served.iter() {
                if *client != me {
                    continue;
                }
                w.stats.probe("c16.sync-partner-observed");
                let si = w.nodes.iter().position(|x| x.agent.actor_id().to_bytes() == *server);
                if *server_cluster != own || *declared != own {
                    return Ok(Err(vio(
                        "sync-partner-of-another-cluster-chosen",
                        json!({"client": node, "client_cluster": own, "declared": declared, "partner": si, "partner_cluster": server_cluster}),
                    )));
                }
            }
            let same: usize = (0..w.nodes.len()).filter(|j| *j != *node && w.cluster_of(*j) == own).count();
            if same == 0 && !served.iter().any(|s| s.1 == me) {
                w.stats.probe("c16.no-same-cluster-partner.no-session");
            }
            for n in w.nodes.iter_mut() {
                let _ = n.drain_changes();
                n.quiesce().await?;
            }
            Ok(Ok(()))
        }
        Ev::Write { node } => {
            w.stats.ev("Write");
            let _ = verif::uni_seen_take();
            let own = w.cluster_of(*node);
            let k = w.next_sentinel;
            w.next_sentinel += 1;
            let (status, resp) = w.nodes[*node]
                .write(vec![stmt(&format!("INSERT INTO t1 (id, a) VALUES ({k}, 'w') ON CONFLICT (id) DO UPDATE SET a = 'w2'"), vec![])], None)
                .await?;
            if status != 200 {
                return Err(SimError::Harness("write failed".into()));
            }
            // the production loop transmits on its own timers (flush every 500 ms at most). Only
            // frames carrying *this* transaction are judged: older payloads that the loop still
            // re-sends were encoded (and their targets chosen) under earlier cluster ids
            let me = w.nodes[*node].agent.actor_id().to_bytes();
            let version = resp.version.unwrap_or(0);
            let start = Instant::now();
            let others_same = (0..w.nodes.len()).filter(|j| *j != *node && w.cluster_of(*j) == own).count();
            let mut seen: Vec<(u16, u16)> = vec![];
            let mut take = |seen: &mut Vec<(u16, u16)>| {
                for (d, o, a, v) in verif::uni_seen_take() {
                    if a == me && v == version {
                        seen.push((d, o));
                    }
                }
            };
            while start.elapsed() < Duration::from_millis(1200) {
                take(&mut seen);
                if others_same > 0 && seen.iter().filter(|(d, o)| d == o).count() >= others_same {
                    // every same-cluster peer got it; cross-cluster transmissions of the same
                    // round would have been made in the same pass
                    tokio::time::sleep(Duration::from_millis(50)).await;
                    take(&mut seen);
                    break;
                }
                tokio::time::sleep(Duration::from_millis(5)).await;
            }
            w.stats.oracle_checks += 1;
            w.stats.fault("local-write-broadcast-by-the-production-loop");
            w.log.push(format!("write n{node} (cluster {own}) v{version}: reached handlers of clusters {:?}", seen.iter().map(|x| x.1).collect::<BTreeSet<_>>()));
            for (declared, handler_cluster) in seen.iter() {
                if *handler_cluster != own {
                    return Ok(Err(vio(
                        "broadcast-sent-to-a-member-of-another-cluster",
                        json!({"sender": node, "sender_cluster": own, "declared": declared, "receiver_cluster": handler_cluster, "version": version}),
                    )));
                }
            }
            if !seen.is_empty() {
                w.stats.probe("c16.broadcast-targets-observed");
            }
            for n in w.nodes.iter_mut() {
                let _ = n.drain_changes();
            }
            Ok(Ok(()))
        }
    }
}
