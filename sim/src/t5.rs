//! T5: pool tier (C20 a,b). The real `SplitPool` on a current-thread runtime
//! with tokio's paused (virtual) clock: 2-40 simulated clients with seeded
//! virtual arrival times, priorities, hold durations (crossing the 5-minute
//! timeouts) and cancellations (while queued, between guard and connection,
//! while holding).

use std::{
    path::Path,
    sync::{Arc, Mutex},
    time::Duration,
};

use klukai_types::agent::SplitPool;
use serde::{Deserialize, Serialize};
use serde_json::json;
use tokio::sync::Semaphore;

use crate::{
    node::R,
    rng::Rng,
    trace::{RunOutcome, Stats, Violation, fnv},
};

#[derive(Serialize, Deserialize, Clone, Debug, PartialEq)]
pub struct Client {
    /// virtual milliseconds after run start at which the request is made
    pub at_ms: u64,
    /// 0 = priority (client), 1 = normal (sync), 2 = low (background)
    pub class: u8,
    pub hold_ms: u64,
    /// abort the client this many virtual ms after run start (if it is still alive)
    pub cancel_at_ms: Option<u64>,
}

#[derive(Clone, Debug)]
enum Rec {
    Enqueue { id: usize, class: u8, t: u64 },
    Grant { id: usize, t: u64, permits: usize },
    Release { id: usize, t: u64 },
    Error { id: usize, t: u64, what: String },
    Cancel { id: usize, t: u64 },
}

pub struct Harness {
    pub pool: SplitPool,
    pub sema: Arc<Semaphore>,
}

impl Harness {
    pub async fn new(dir: &Path) -> R<Harness> {
        std::fs::create_dir_all(dir)?;
        let sema = Arc::new(Semaphore::new(1));
        let pool = SplitPool::create(dir.join("pool.db"), sema.clone())
            .await
            .map_err(|e| crate::SimError::Harness(format!("pool: {e}")))?;
        // create the single write connection once (extension load is real I/O)
        {
            let _c = pool
                .write_priority()
                .await
                .map_err(|e| crate::SimError::Harness(format!("pool: {e}")))?;
        }
        Ok(Harness { pool, sema })
    }
}

pub fn generate(seed: u64) -> Vec<Client> {
    let mut r = Rng::new(seed);
    let n = r.range(2, 40) as usize;
    let spread = *r.pick(&[0u64, 10, 1_000, 60_000, 600_000]);
    let long_holds = r.chance(0.3);
    let p_cancel = if r.chance(0.5) { r.f64() * 0.4 } else { 0.0 };
    let mut v = vec![];
    for _ in 0..n {
        let at_ms = if spread == 0 { 0 } else { r.below(spread + 1) };
        let hold_ms = if long_holds && r.chance(0.3) {
            r.range(60_000, 600_000)
        } else {
            *r.pick(&[0u64, 0, 1, 5, 50, 500, 5_000, 30_000])
        };
        let cancel_at_ms = if r.chance(p_cancel) {
            Some(at_ms + r.below(hold_ms + 120_000))
        } else {
            None
        };
        v.push(Client {
            at_ms,
            class: r.weighted(&[3, 4, 3]) as u8,
            hold_ms,
            cancel_at_ms,
        });
    }
    v
}

pub async fn execute(h: &Harness, seed: u64, clients: &[Client]) -> R<RunOutcome> {
    let log: Arc<Mutex<Vec<Rec>>> = Arc::new(Mutex::new(vec![]));
    let start = tokio::time::Instant::now();
    let now_ms = move || start.elapsed().as_millis() as u64;
    let mut handles = vec![];
    for (id, c) in clients.iter().cloned().enumerate() {
        let pool = h.pool.clone();
        let sema = h.sema.clone();
        let log2 = log.clone();
        let jh = tokio::spawn(async move {
            tokio::time::sleep(Duration::from_millis(c.at_ms)).await;
            log2.lock().unwrap().push(Rec::Enqueue { id, class: c.class, t: now_ms() });
            let res = match c.class {
                0 => pool.write_priority().await,
                1 => pool.write_normal().await,
                _ => pool.write_low().await,
            };
            match res {
                Ok(conn) => {
                    log2.lock().unwrap().push(Rec::Grant {
                        id,
                        t: now_ms(),
                        permits: sema.available_permits(),
                    });
                    // releases must be recorded even when the holder is cancelled
                    struct OnDrop(Arc<Mutex<Vec<Rec>>>, usize, tokio::time::Instant);
                    impl Drop for OnDrop {
                        fn drop(&mut self) {
                            self.0.lock().unwrap().push(Rec::Release {
                                id: self.1,
                                t: self.2.elapsed().as_millis() as u64,
                            });
                        }
                    }
                    let guard = OnDrop(log2.clone(), id, start);
                    tokio::time::sleep(Duration::from_millis(c.hold_ms)).await;
                    drop(guard);
                    drop(conn);
                }
                Err(e) => {
                    log2.lock().unwrap().push(Rec::Error { id, t: now_ms(), what: e.to_string() });
                }
            }
        });
        handles.push((id, c, jh));
    }
    // canceller
    let mut cancels: Vec<(u64, usize)> = clients
        .iter()
        .enumerate()
        .filter_map(|(i, c)| c.cancel_at_ms.map(|t| (t, i)))
        .collect();
    cancels.sort();
    let aborts: Vec<(usize, tokio::task::AbortHandle)> =
        handles.iter().map(|(i, _, h)| (*i, h.abort_handle())).collect();
    let log3 = log.clone();
    let canceller = tokio::spawn(async move {
        for (t, i) in cancels {
            tokio::time::sleep_until(start + Duration::from_millis(t)).await;
            if !aborts[i].1.is_finished() {
                aborts[i].1.abort();
                log3.lock().unwrap().push(Rec::Cancel { id: i, t: now_ms() });
            }
        }
    });
    // liveness: everything must finish within a generous virtual horizon
    let horizon = Duration::from_secs(24 * 3600);
    let mut hung = vec![];
    for (id, _, jh) in handles {
        match tokio::time::timeout_at(start + horizon, jh).await {
            Ok(_) => {}
            Err(_) => hung.push(id),
        }
    }
    canceller.abort();
    let virtual_ms = now_ms();

    // ------------------------------------------------------------------ oracle
    let recs = log.lock().unwrap().clone();
    let mut stats = Stats::default();
    stats.virtual_ms = virtual_ms;
    stats.steps = recs.len() as u64;
    let mut violation: Option<Violation> = None;
    let n = clients.len();
    let mut enq: Vec<Option<u64>> = vec![None; n];
    let mut granted: Vec<Option<u64>> = vec![None; n];
    let mut ended: Vec<Option<u64>> = vec![None; n]; // error or cancel while waiting
    let mut holder: Option<usize> = None;
    let mut last_release: u64 = 0;
    // first pass: final fate times (needed to know who was still waiting)
    for r in &recs {
        match r {
            Rec::Error { id, t, .. } => ended[*id] = ended[*id].or(Some(*t)),
            Rec::Cancel { id, t } => ended[*id] = ended[*id].or(Some(*t)),
            _ => {}
        }
    }
    let mut grant_order: Vec<Vec<usize>> = vec![vec![]; 3];
    for r in &recs {
        stats.oracle_checks += 1;
        match r {
            Rec::Enqueue { id, t, .. } => {
                enq[*id] = Some(*t);
                stats.ev("Enqueue");
            }
            Rec::Grant { id, t, permits } => {
                stats.ev("Grant");
                if let Some(hd) = holder {
                    violation.get_or_insert(Violation::new(
                        "C20",
                        "two-write-connections-at-once",
                        json!({"holder": hd, "granted": id, "t_ms": t}),
                    ));
                }
                if *permits != 0 {
                    violation.get_or_insert(Violation::new(
                        "C20",
                        "write-permit-not-held-with-connection",
                        json!({"granted": id, "available_permits": permits}),
                    ));
                }
                holder = Some(*id);
                granted[*id] = Some(*t);
                let class = clients[*id].class;
                let decision = last_release.max(enq[*id].unwrap_or(0));
                // anyone of a higher class who was already waiting strictly before the decision?
                for other in 0..n {
                    if other == *id || clients[other].class >= class {
                        continue;
                    }
                    let Some(e) = enq[other] else { continue };
                    if e >= decision {
                        continue;
                    }
                    let still_waiting = granted[other].is_none() && ended[other].is_none_or(|x| x > *t);
                    if still_waiting {
                        violation.get_or_insert(Violation::new(
                            "C20",
                            "lower-priority-served-before-waiting-higher-priority",
                            json!({"granted": id, "class": class, "waiting": other, "waiting_class": clients[other].class,
                                   "waiting_since_ms": e, "decision_ms": decision}),
                        ));
                    }
                }
                // FIFO inside a class (strictly ordered enqueue times only)
                for prev in grant_order[class as usize].iter() {
                    if enq[*prev].unwrap_or(0) > enq[*id].unwrap_or(0) {
                        let waiting_then = granted[*prev].is_some_and(|g| g > enq[*id].unwrap_or(0));
                        if waiting_then {
                            violation.get_or_insert(Violation::new(
                                "C20",
                                "overtaken-within-priority-class",
                                json!({"first_enqueued": id, "served_earlier": prev}),
                            ));
                        }
                    }
                }
                grant_order[class as usize].push(*id);
            }
            Rec::Release { id, t } => {
                stats.ev("Release");
                if holder == Some(*id) {
                    holder = None;
                }
                last_release = *t;
            }
            Rec::Error { id, t, what } => {
                stats.ev("Error");
                let waited = t - enq[*id].unwrap_or(*t);
                if what.contains("timed out") {
                    stats.fault("request-timed-out-after-5-virtual-minutes");
                    if waited < 299_000 {
                        violation.get_or_insert(Violation::new(
                            "C20",
                            "request-failed-before-timeout",
                            json!({"id": id, "waited_ms": waited, "error": what}),
                        ));
                    }
                } else {
                    violation.get_or_insert(Violation::new(
                        "C20",
                        "request-failed",
                        json!({"id": id, "waited_ms": waited, "error": what}),
                    ));
                }
            }
            Rec::Cancel { id, .. } => {
                stats.ev("Cancel");
                if granted[*id].is_some() {
                    stats.fault("cancelled-while-holding");
                } else if enq[*id].is_some() {
                    stats.fault("cancelled-while-queued");
                } else {
                    stats.fault("cancelled-before-request");
                }
            }
        }
    }
    if !hung.is_empty() {
        violation.get_or_insert(Violation::new(
            "C20",
            "request-never-served",
            json!({"clients": hung, "virtual_ms": virtual_ms}),
        ));
    }
    if clients.iter().any(|c| c.hold_ms >= 300_000) {
        stats.fault("hold-longer-than-5-virtual-minutes");
    }
    let mut sh = 0xcbf2_9ce4_8422_2325;
    for r in &recs {
        let s = match r {
            Rec::Enqueue { class, .. } => format!("E{class}"),
            Rec::Grant { id, .. } => format!("G{}", clients[*id].class),
            Rec::Release { .. } => "R".into(),
            Rec::Error { .. } => "X".into(),
            Rec::Cancel { .. } => "C".into(),
        };
        fnv(&mut sh, s.as_bytes());
    }
    stats.schedule_hash = sh;
    stats.nontrivial = clients.len() >= 3
        && recs.iter().filter(|r| matches!(r, Rec::Grant { .. })).count() >= 2;
    stats.converged = violation.is_none();
    let mut h2 = 0xcbf2_9ce4_8422_2325;
    for r in &recs {
        fnv(&mut h2, format!("{r:?}").as_bytes());
    }
    Ok(RunOutcome {
        seed,
        tier: "t5".into(),
        config: json!({}),
        events: clients.iter().map(|c| serde_json::to_value(c).unwrap()).collect(),
        violation,
        known: vec![],
        stats,
        log_digest: h2,
    })
}

// ---------------------------------------------------------------------------
// Poll-level schedules ("t5p"): the clients' futures are not tokio tasks but are polled,
// dropped (cancelled) and released by the simulator one seeded action at a time, so that a
// cancellation can land in any window of a request's life - e.g. after the dispatcher has
// handed it the turn but before the request is polled again. The pool's own dispatcher
// task runs whenever the simulator yields; time is virtual.

#[derive(Serialize, Deserialize, Clone, Debug, PartialEq)]
#[serde(tag = "act")]
pub enum Act {
    Start { class: u8 },
    Poll { i: usize },
    Cancel { i: usize },
    Release { i: usize },
    Yield { n: u8 },
    Advance { ms: u64 },
}

pub fn generate_acts(seed: u64) -> Vec<Act> {
    let mut r = Rng::new(seed).fork("t5p");
    let n = r.range(10, 80);
    let p_cancel = if r.chance(0.7) { 0.05 + r.f64() * 0.2 } else { 0.0 };
    let mut out = vec![];
    for _ in 0..n {
        let x = r.f64();
        out.push(if x < 0.18 {
            Act::Start { class: r.weighted(&[3, 4, 3]) as u8 }
        } else if x < 0.50 {
            Act::Poll { i: r.usize_below(12) }
        } else if x < 0.50 + p_cancel {
            Act::Cancel { i: r.usize_below(12) }
        } else if x < 0.75 {
            Act::Release { i: r.usize_below(12) }
        } else if x < 0.95 {
            Act::Yield { n: r.range(1, 4) as u8 }
        } else {
            Act::Advance { ms: *r.pick(&[1u64, 10, 1_000, 100_000]) }
        });
    }
    out
}

struct Flag(std::sync::atomic::AtomicBool);
impl std::task::Wake for Flag {
    fn wake(self: Arc<Self>) {
        self.0.store(true, std::sync::atomic::Ordering::SeqCst);
    }
}

type ConnFut = std::pin::Pin<Box<dyn std::future::Future<Output = Result<klukai_types::agent::WriteConn, klukai_types::agent::PoolError>> + Send>>;

enum Slot {
    Waiting { fut: ConnFut, flag: Arc<Flag>, polled: bool },
    Holding(klukai_types::agent::WriteConn),
    Gone,
}

pub async fn execute_acts(h: &Harness, seed: u64, acts: &[Act]) -> R<RunOutcome> {
    use std::future::Future;
    let mut stats = Stats::default();
    let mut violation: Option<Violation> = None;
    let mut slots: Vec<(u8, Slot)> = vec![];
    let mut log: Vec<String> = vec![];
    let poll_one = |slot: &mut (u8, Slot), idx: usize, holders: usize, log: &mut Vec<String>, stats: &mut Stats, violation: &mut Option<Violation>, sema: &Arc<Semaphore>| {
        let (_, s) = slot;
        let Slot::Waiting { fut, flag, polled } = s else { return };
        flag.0.store(false, std::sync::atomic::Ordering::SeqCst);
        *polled = true;
        let waker = std::task::Waker::from(flag.clone());
        let mut cx = std::task::Context::from_waker(&waker);
        match fut.as_mut().poll(&mut cx) {
            std::task::Poll::Pending => {}
            std::task::Poll::Ready(Ok(conn)) => {
                log.push(format!("grant {idx}"));
                stats.ev("Grant");
                if holders > 0 {
                    violation.get_or_insert(Violation::new("C20", "two-write-connections-at-once", json!({"granted": idx, "holders_before": holders})));
                }
                if sema.available_permits() != 0 {
                    violation.get_or_insert(Violation::new("C20", "write-permit-not-held-with-connection", json!({"granted": idx})));
                }
                *s = Slot::Holding(conn);
            }
            std::task::Poll::Ready(Err(e)) => {
                log.push(format!("error {idx}: {e}"));
                stats.ev("Error");
                violation.get_or_insert(Violation::new("C20", "request-failed", json!({"id": idx, "error": e.to_string(), "note": "no hold in this run exceeds the 5 minute timeouts"})));
                *s = Slot::Gone;
            }
        }
    };
    let mut advanced: u64 = 0;
    for a in acts {
        stats.steps += 1;
        let holders = slots.iter().filter(|(_, s)| matches!(s, Slot::Holding(_))).count();
        match a {
            Act::Start { class } => {
                if slots.len() >= 12 {
                    continue;
                }
                let pool = h.pool.clone();
                let c = *class;
                let fut: ConnFut = Box::pin(async move {
                    match c {
                        0 => pool.write_priority().await,
                        1 => pool.write_normal().await,
                        _ => pool.write_low().await,
                    }
                });
                slots.push((c, Slot::Waiting { fut, flag: Arc::new(Flag(std::sync::atomic::AtomicBool::new(true))), polled: false }));
                log.push(format!("start {} class {c}", slots.len() - 1));
                stats.ev("Start");
            }
            Act::Poll { i } => {
                if slots.is_empty() {
                    continue;
                }
                let idx = *i % slots.len();
                poll_one(&mut slots[idx], idx, holders, &mut log, &mut stats, &mut violation, &h.sema);
            }
            Act::Cancel { i } => {
                if slots.is_empty() {
                    continue;
                }
                let idx = *i % slots.len();
                if let Slot::Waiting { flag, polled, .. } = &slots[idx].1 {
                    let woken = flag.0.load(std::sync::atomic::Ordering::SeqCst);
                    stats.fault(match (*polled, woken) {
                        (false, _) => "cancelled-before-first-poll",
                        (true, true) => "cancelled-after-wake-before-poll",
                        (true, false) => "cancelled-while-parked",
                    });
                    slots[idx].1 = Slot::Gone;
                    log.push(format!("cancel {idx}"));
                }
            }
            Act::Release { i } => {
                if slots.is_empty() {
                    continue;
                }
                let idx = *i % slots.len();
                if matches!(slots[idx].1, Slot::Holding(_)) {
                    slots[idx].1 = Slot::Gone;
                    log.push(format!("release {idx}"));
                    stats.ev("Release");
                }
            }
            Act::Yield { n } => {
                for _ in 0..*n {
                    tokio::task::yield_now().await;
                }
            }
            Act::Advance { ms } => {
                // never across the pool's 5 minute timeouts in total: a timeout would be legal then
                if advanced + ms < 250_000 {
                    advanced += ms;
                    tokio::time::sleep(Duration::from_millis(*ms)).await;
                }
            }
        }
        if violation.is_some() {
            break;
        }
    }
    // ---- wind down: everything released, every still-waiting request must now be served in
    // turn (bounded), and a fresh request of each class must be served at once
    if violation.is_none() {
        for s in slots.iter_mut() {
            if matches!(s.1, Slot::Holding(_)) {
                s.1 = Slot::Gone;
            }
        }
        for c in 0..3u8 {
            let pool = h.pool.clone();
            let fut: ConnFut = Box::pin(async move {
                match c {
                    0 => pool.write_priority().await,
                    1 => pool.write_normal().await,
                    _ => pool.write_low().await,
                }
            });
            slots.push((c, Slot::Waiting { fut, flag: Arc::new(Flag(std::sync::atomic::AtomicBool::new(true))), polled: false }));
        }
        let mut rounds = 0;
        loop {
            rounds += 1;
            let waiting: Vec<usize> = slots.iter().enumerate().filter(|(_, (_, s))| matches!(s, Slot::Waiting { .. })).map(|(i, _)| i).collect();
            if waiting.is_empty() {
                break;
            }
            if rounds > 400 {
                violation = Some(Violation::new(
                    "C20",
                    "request-never-served",
                    json!({"still_waiting": waiting, "classes": waiting.iter().map(|i| slots[*i].0).collect::<Vec<_>>(),
                           "note": "nobody holds the connection, no timeout elapsed, 400 poll rounds with yields and 10 virtual ms each"}),
                ));
                break;
            }
            for i in waiting {
                let holders = slots.iter().filter(|(_, s)| matches!(s, Slot::Holding(_))).count();
                poll_one(&mut slots[i], i, holders, &mut log, &mut stats, &mut violation, &h.sema);
                if matches!(slots[i].1, Slot::Holding(_)) {
                    slots[i].1 = Slot::Gone; // release at once
                }
            }
            for _ in 0..3 {
                tokio::task::yield_now().await;
            }
            tokio::time::sleep(Duration::from_millis(10)).await;
            if violation.is_some() {
                break;
            }
        }
    }
    drop(slots);
    for _ in 0..5 {
        tokio::task::yield_now().await;
    }
    stats.oracle_checks += 1;
    let mut sh = 0xcbf2_9ce4_8422_2325;
    for l in &log {
        fnv(&mut sh, l.split(' ').next().unwrap_or("").as_bytes());
    }
    stats.schedule_hash = sh ^ 0x5a5a;
    stats.nontrivial = stats.events.get("Grant").copied().unwrap_or(0) >= 2;
    stats.converged = violation.is_none();
    let mut h2 = 0xcbf2_9ce4_8422_2325;
    for l in &log {
        fnv(&mut h2, l.as_bytes());
    }
    Ok(RunOutcome {
        seed,
        tier: "t5p".into(),
        config: json!({}),
        events: acts.iter().map(|c| serde_json::to_value(c).unwrap()).collect(),
        violation,
        known: vec![],
        stats,
        log_digest: h2,
    })
}
