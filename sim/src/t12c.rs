//! Client-library clause of C12: "the client library reports any gap it does observe".
//!
//! The real `klukai_client::CorrosionApiClient` / `SubscriptionStream` talks HTTP to a
//! scripted server inside the simulator (loopback TCP; the client's 1 s reconnect back-off runs
//! in real time: its HTTP/2 connect and keep-alive timers do not tolerate a virtual clock). The server follows a seeded script per connection: an honest stream,
//! or one that skips, repeats or goes back in change ids, aborts the connection at any line,
//! and resumes honestly or from a wrong point after the client's reconnect.
//!
//! Oracle over the ordered log of what the application saw and what the server was asked:
//! every change handed to the application continues the previous id by exactly one (or an
//! error was returned instead), and every reconnect asks for exactly the last id the
//! application was given.

use std::{
    net::SocketAddr,
    sync::{Arc, Mutex},
    time::Duration,
};

use axum::{
    Router,
    body::Body,
    extract::{Path as AxPath, Query, State},
    response::Response,
    routing::{get, post},
};
use bytes::Bytes;
use futures::StreamExt;
use klukai_types::api::{ChangeId, Statement, TypedQueryEvent};
use serde::{Deserialize, Serialize};
use serde_json::json;

use crate::{
    node::R,
    rng::Rng,
    trace::{RunOutcome, Stats, Violation, fnv},
};

#[derive(Serialize, Deserialize, Clone, Debug, PartialEq)]
pub enum Step {
    /// the next id
    Next,
    /// jump ahead by this many ids (a gap)
    Skip(u64),
    /// the previous id again
    Dup,
    /// an id this far back
    Back(u64),
}

#[derive(Serialize, Deserialize, Clone, Debug, PartialEq)]
pub struct Conn {
    /// only for the first connection: rows of the snapshot and the id it ends with
    pub rows: u64,
    /// resumed connections start at `from + 1 + offset`
    pub offset: i64,
    pub steps: Vec<Step>,
    /// abort the connection (I/O error at the client) after this many lines; None = clean end
    pub abort_after: Option<usize>,
}

#[derive(Serialize, Deserialize, Clone, Debug, PartialEq)]
pub struct Script {
    pub snapshot_id: u64,
    pub conns: Vec<Conn>,
}

pub fn generate(seed: u64) -> Script {
    let mut r = Rng::new(seed).fork("t12c");
    let snapshot_id = *r.pick(&[0u64, 0, 1, 7, 500]);
    let n = r.range(1, 4) as usize;
    let p_fault = if r.chance(0.3) { 0.0 } else { 0.05 + r.f64() * 0.25 };
    let mut conns = vec![];
    for i in 0..n {
        let k = r.range(0, 8) as usize;
        let mut steps = vec![];
        for _ in 0..k {
            steps.push(if r.chance(p_fault) {
                match r.below(3) {
                    0 => Step::Skip(r.range(1, 3)),
                    1 => Step::Dup,
                    _ => Step::Back(r.range(1, 3)),
                }
            } else {
                Step::Next
            });
        }
        let last = i == n - 1;
        let lines = steps.len() + if i == 0 { 3 } else { 0 };
        conns.push(Conn {
            rows: if i == 0 { r.range(0, 3) } else { 0 },
            offset: if i > 0 && r.chance(p_fault) { *r.pick(&[-2i64, -1, 1, 2]) } else { 0 },
            steps,
            abort_after: if last { None } else { Some(r.usize_below(lines + 1)) },
        });
    }
    Script { snapshot_id, conns }
}

#[derive(Clone)]
struct Srv {
    script: Arc<Script>,
    next_conn: Arc<Mutex<usize>>,
    log: Arc<Mutex<Vec<String>>>,
}

fn lines_for(script: &Script, idx: usize, from: Option<u64>) -> (Vec<String>, Option<usize>) {
    let c = &script.conns[idx.min(script.conns.len() - 1)];
    let mut out = vec![];
    let mut cur: i64;
    if idx == 0 {
        out.push(json!({"columns": ["id", "v"]}).to_string());
        for i in 0..c.rows {
            out.push(json!({"row": [i + 1, [i, "x"]]}).to_string());
        }
        out.push(json!({"eoq": {"time": 0.0, "change_id": script.snapshot_id}}).to_string());
        cur = script.snapshot_id as i64;
    } else {
        cur = from.unwrap_or(0) as i64 + c.offset;
    }
    for s in &c.steps {
        match s {
            Step::Next => cur += 1,
            Step::Skip(n) => cur += 1 + *n as i64,
            Step::Dup => {}
            Step::Back(n) => cur -= *n as i64,
        }
        let id = cur.max(0) as u64;
        out.push(json!({"change": ["update", id, [id, "y"], id]}).to_string());
    }
    (out, c.abort_after)
}

fn respond(lines: Vec<String>, abort_after: Option<usize>, id: uuid::Uuid) -> Response {
    let mut items: Vec<Result<Bytes, std::io::Error>> = vec![];
    for (i, l) in lines.iter().enumerate() {
        if abort_after == Some(i) {
            break;
        }
        items.push(Ok(Bytes::from(format!("{l}\n"))));
    }
    if let Some(a) = abort_after {
        if a <= lines.len() {
            items.push(Err(std::io::Error::new(std::io::ErrorKind::ConnectionReset, "scripted abort")));
        }
    }
    Response::builder()
        .status(200)
        .header("corro-query-id", id.to_string())
        .header("corro-query-hash", "h")
        // (paced: an error right behind queued frames makes the HTTP/2 server reset the
        // stream and discard what it had not flushed yet)
        .body(Body::from_stream(futures::stream::iter(items).then(|it| async move {
            tokio::time::sleep(Duration::from_millis(if it.is_err() { 15 } else { 1 })).await;
            it
        })))
        .unwrap()
}

#[derive(Deserialize)]
struct Q {
    from: Option<u64>,
}

const SUB_ID: uuid::Uuid = uuid::Uuid::from_u128(0x1234_5678_9abc_def0_1234_5678_9abc_def0);

async fn h_post(State(s): State<Srv>) -> Response {
    let idx = {
        let mut n = s.next_conn.lock().unwrap();
        let i = *n;
        *n += 1;
        i
    };
    s.log.lock().unwrap().push("REQ subscribe".to_string());
    let (lines, abort) = lines_for(&s.script, idx, None);
    respond(lines, abort, SUB_ID)
}

async fn h_get(State(s): State<Srv>, AxPath(_id): AxPath<String>, Query(q): Query<Q>) -> Response {
    let idx = {
        let mut n = s.next_conn.lock().unwrap();
        let i = *n;
        *n += 1;
        i
    };
    s.log.lock().unwrap().push(format!("REQ resume from={}", q.from.map(|x| x.to_string()).unwrap_or("-".into())));
    if idx >= s.script.conns.len() {
        // the script is over: a clean, empty stream
        return respond(vec![], None, SUB_ID);
    }
    let (lines, abort) = lines_for(&s.script, idx, q.from);
    respond(lines, abort, SUB_ID)
}

pub async fn run_script(seed: u64, script: &Script) -> R<RunOutcome> {
    let log: Arc<Mutex<Vec<String>>> = Arc::new(Mutex::new(vec![]));
    let srv = Srv { script: Arc::new(script.clone()), next_conn: Arc::new(Mutex::new(0)), log: log.clone() };
    let app = Router::new().route("/v1/subscriptions", post(h_post)).route("/v1/subscriptions/{id}", get(h_get)).with_state(srv);
    let listener = tokio::net::TcpListener::bind("127.0.0.1:0").await?;
    let addr: SocketAddr = listener.local_addr()?;
    let server = tokio::spawn(async move {
        let _ = axum::serve(listener, app).await;
    });
    let client = klukai_client::CorrosionApiClient::new(addr);
    let mut stats = Stats::default();
    let mut violation: Option<Violation> = None;
    let stream = client.subscribe(&Statement::Simple("SELECT id, v FROM t".into()), false, None).await;
    let mut stream = match stream {
        Ok(s) => Some(s),
        Err(e) => {
            // the scripted server aborted before the response was under way: the application
            // gets an error from `subscribe` itself, nothing was handed over
            let _ = e;
            log.lock().unwrap().push("APP subscribe-failed".into());
            stats.probe("c12c.subscribe-itself-failed");
            None
        }
    };
    let mut polls = 0;
    let mut errors_in_a_row = 0;
    let deadline = tokio::time::Instant::now() + Duration::from_secs(30);
    loop {
        polls += 1;
        if polls > 200 || errors_in_a_row >= 3 {
            break;
        }
        let Some(stream) = stream.as_mut() else { break };
        let item = match tokio::time::timeout_at(deadline, stream.next()).await {
            Ok(x) => x,
            Err(_) => {
                log.lock().unwrap().push("APP timeout".into());
                break;
            }
        };
        let Some(item) = item else {
            log.lock().unwrap().push("APP end".into());
            break;
        };
        match item {
            Ok(TypedQueryEvent::Columns(_)) => log.lock().unwrap().push("APP columns".into()),
            Ok(TypedQueryEvent::Row(..)) => log.lock().unwrap().push("APP row".into()),
            Ok(TypedQueryEvent::EndOfQuery { change_id, .. }) => {
                log.lock().unwrap().push(format!("APP eoq {}", change_id.map(|c: ChangeId| c.0.to_string()).unwrap_or("-".into())));
                errors_in_a_row = 0;
            }
            Ok(TypedQueryEvent::Change(_, _, _, id)) => {
                log.lock().unwrap().push(format!("APP change {}", id.0));
                errors_in_a_row = 0;
            }
            Ok(TypedQueryEvent::Error(e)) => log.lock().unwrap().push(format!("APP server-error {e}")),
            Err(e) => {
                let kind = match &e {
                    klukai_client::sub::SubscriptionError::MissedChange { expected, got } => format!("missed expected={} got={}", expected.0, got.0),
                    klukai_client::sub::SubscriptionError::MaxRetryAttempts => "max-retries".to_string(),
                    other => format!("other {other}"),
                };
                log.lock().unwrap().push(format!("APP error {kind}"));
                errors_in_a_row += 1;
            }
        }
    }
    drop(stream);
    server.abort();
    // ------------------------------------------------------------------ oracle
    let entries = log.lock().unwrap().clone();
    let mut last: Option<u64> = None;
    let mut ever_error = false;
    for (i, e) in entries.iter().enumerate() {
        stats.oracle_checks += 1;
        if let Some(rest) = e.strip_prefix("APP eoq ") {
            last = rest.parse().ok();
        } else if let Some(rest) = e.strip_prefix("APP change ") {
            let id: u64 = rest.parse().unwrap_or(0);
            if let Some(l) = last {
                if id != l + 1 {
                    violation.get_or_insert(Violation::new(
                        "C12",
                        "client-library-handed-over-a-non-consecutive-change-without-reporting-it",
                        json!({"previous": l, "got": id, "log": entries.iter().take(i + 1).collect::<Vec<_>>()}),
                    ));
                }
            }
            last = Some(id);
        } else if let Some(rest) = e.strip_prefix("REQ resume from=") {
            stats.fault("connection-aborted-and-resumed");
            let asked: Option<u64> = rest.parse().ok();
            if asked != Some(last.unwrap_or(0)) {
                violation.get_or_insert(Violation::new(
                    "C12",
                    "client-library-resumed-from-the-wrong-change-id",
                    json!({"asked_from": asked, "last_handed_over": last, "log": entries.iter().take(i + 1).collect::<Vec<_>>()}),
                ));
            }
        } else if e.starts_with("APP error missed") {
            ever_error = true;
            stats.probe("c12c.missed-change-reported");
        }
    }
    let faulty = script.conns.iter().any(|c| c.offset != 0 || c.steps.iter().any(|s| *s != Step::Next));
    if faulty {
        stats.fault("server-skips-repeats-or-rewinds-ids");
    }
    if faulty && !ever_error {
        stats.probe("c12c.faulty-script-without-error(aborted-before-the-fault)");
    }
    stats.steps = entries.len() as u64;
    let mut sh = 0xcbf2_9ce4_8422_2325;
    fnv(&mut sh, serde_json::to_string(script).unwrap_or_default().as_bytes());
    stats.schedule_hash = sh;
    stats.nontrivial = faulty || script.conns.len() > 1;
    stats.converged = violation.is_none();
    let mut h = 0xcbf2_9ce4_8422_2325;
    for l in &entries {
        if std::env::var_os("VERIF_TRACE").is_some() {
            eprintln!("LOG {l}");
        }
        fnv(&mut h, l.as_bytes());
    }
    Ok(RunOutcome {
        seed,
        tier: "t12c".into(),
        config: json!({"snapshot_id": script.snapshot_id}),
        events: script.conns.iter().map(|e| serde_json::to_value(e).unwrap()).collect(),
        violation,
        known: vec![],
        stats,
        log_digest: h,
    })
}
