//! One node incarnation: the real `setup()` + `run()` with the simulator
//! holding the receiving ends of the node's internal queues.

use std::{
    ops::RangeInclusive,
    path::{Path, PathBuf},
    time::{Duration, Instant},
};

use axum::{Extension, Json, extract::Query};
use klukai_agent::{
    agent::{AgentOptions, process_multiple_changes, setup, util},
    api::public::{TimeoutParams, api_v1_db_schema, api_v1_transactions},
};
use klukai_types::{
    actor::ActorId,
    agent::{Agent, Bookie},
    api::{ExecResponse, ExecResult, SqliteParam, Statement},
    base::CrsqlDbVersion,
    broadcast::{BroadcastInput, BroadcastV1, ChangeSource, ChangeV1},
    channel::{CorroReceiver, CorroSender, bounded},
    config::Config,
    sqlite::CrConn,
    sync::{SyncMessage, SyncMessageV1, SyncRequestV1, SyncStateV1, generate_sync},
    tripwire::Tripwire,
    verif,
};
use rusqlite::Connection;
use tokio::sync::mpsc;

use crate::SimError;

pub type R<T> = Result<T, SimError>;

#[derive(Clone, Debug)]
pub struct Knobs {
    pub sql_tx_timeout: usize,
    pub processing_queue_len: usize,
    pub apply_queue_len: usize,
    pub changes_channel_len: usize,
    pub apply_queue_timeout: usize,
    /// keep the real handle_changes loop attached to rx_changes (ingest tier)
    pub real_ingest: bool,
    pub api_token: Option<String>,
    /// keep the production broadcast loop attached to rx_bcast (wire tier): the node itself
    /// picks the targets and transmits over its real QUIC transport
    pub real_bcast: bool,
}

impl Default for Knobs {
    fn default() -> Self {
        Knobs {
            sql_tx_timeout: 60,
            processing_queue_len: 20000,
            apply_queue_len: 50,
            changes_channel_len: 1024,
            apply_queue_timeout: 3_600_000,
            real_ingest: false,
            api_token: None,
            real_bcast: false,
        }
    }
}

pub struct Node {
    pub idx: usize,
    pub dir: PathBuf,
    pub actor: ActorId,
    pub agent: Agent,
    pub bookie: Bookie,
    pub opts_subs: Option<()>,
    pub subs_cache: klukai_agent::api::public::pubsub::SharedMatcherBroadcastCache,
    pub updates_cache: klukai_agent::api::public::update::SharedUpdateBroadcastCache,
    pub tripwire: Tripwire,
    pub transport: klukai_agent::transport::Transport,
    rx_bcast: CorroReceiver<BroadcastInput>,
    rx_apply: CorroReceiver<(ActorId, CrsqlDbVersion)>,
    rx_clear: CorroReceiver<(ActorId, RangeInclusive<CrsqlDbVersion>)>,
    rx_changes: Option<CorroReceiver<(ChangeV1, ChangeSource)>>,
    // keep the dummies' senders alive so the production loops just idle
    _dummies: Dummies,
    tripwire_tx: mpsc::Sender<()>,
    pub handles: Vec<tokio::task::JoinHandle<()>>,
    /// outgoing change messages not yet picked up by the world
    pub outbox: Vec<(bool, ChangeV1)>, // (is_rebroadcast, change)
    pub apply_backlog: Vec<(ActorId, CrsqlDbVersion)>,
    pub clear_backlog: Vec<(ActorId, RangeInclusive<CrsqlDbVersion>)>,
    pub knobs: Knobs,
}

#[allow(dead_code)]
struct Dummies {
    bcast: CorroSender<BroadcastInput>,
    apply: CorroSender<(ActorId, CrsqlDbVersion)>,
    clear: CorroSender<(ActorId, RangeInclusive<CrsqlDbVersion>)>,
    changes: Option<CorroSender<(ChangeV1, ChangeSource)>>,
}

/// Seeded actor id for node `idx` of run `seed`.
pub fn seeded_actor(seed: u64, idx: usize) -> ActorId {
    let mut x = crate::rng::derive(seed, "actor", idx as u64);
    let a = crate::rng::splitmix(&mut x);
    let b = crate::rng::splitmix(&mut x);
    let mut bytes = [0u8; 16];
    bytes[..8].copy_from_slice(&a.to_be_bytes());
    bytes[8..].copy_from_slice(&b.to_be_bytes());
    // make it a well-formed v4 uuid; first byte carries the node index so that
    // BTreeMap<ActorId> order == node order (readable logs)
    bytes[0] = 0x10 + idx as u8;
    bytes[6] = (bytes[6] & 0x0f) | 0x40;
    bytes[8] = (bytes[8] & 0x3f) | 0x80;
    ActorId(uuid::Uuid::from_bytes(bytes))
}

/// Create the database file with a chosen site id before the first boot (the
/// same manipulation `corrosion restore --self-actor-id` does on a closed db).
pub fn precreate_db(path: &Path, actor: ActorId) -> R<()> {
    if let Some(parent) = path.parent() {
        std::fs::create_dir_all(parent)?;
    }
    {
        let db_conn = Connection::open(path)?;
        db_conn.execute_batch("PRAGMA auto_vacuum = INCREMENTAL")?;
        let conn = CrConn::init(db_conn)?;
        let _: ActorId = conn.query_row("SELECT crsql_site_id();", [], |row| row.get(0))?;
        drop(conn);
    }
    {
        let conn = Connection::open(path)?;
        let n = conn.execute(
            "UPDATE crsql_site_id SET site_id = ? WHERE ordinal = 0",
            [actor],
        )?;
        if n != 1 {
            return Err(SimError::Harness(format!(
                "could not seed site id (updated {n} rows)"
            )));
        }
    }
    Ok(())
}

pub fn make_config(dir: &Path, knobs: &Knobs) -> R<Config> {
    let mut conf = Config::builder()
        .db_path(dir.join("corrosion.db").display().to_string())
        .gossip_addr("127.0.0.1:0".parse().unwrap())
        .api_addr("127.0.0.1:0".parse().unwrap())
        .admin_path(dir.join("admin.sock").display().to_string())
        .build()
        .map_err(|e| SimError::Harness(format!("config: {e}")))?;
    conf.perf.sql_tx_timeout = knobs.sql_tx_timeout;
    conf.perf.processing_queue_len = knobs.processing_queue_len;
    conf.perf.apply_queue_len = knobs.apply_queue_len;
    conf.perf.changes_channel_len = knobs.changes_channel_len;
    conf.perf.apply_queue_timeout = knobs.apply_queue_timeout;
    // the production sync loop never fires on its own: the simulator decides
    conf.perf.min_sync_backoff = 36_000;
    conf.perf.max_sync_backoff = 36_001;
    if let Some(tok) = &knobs.api_token {
        conf.api.authorization = Some(klukai_types::config::AuthzConfig::BearerToken(tok.clone()));
    }
    Ok(conf)
}

impl Node {
    /// Boot through the production start-up path on `dir`.
    pub async fn boot(idx: usize, dir: PathBuf, actor: ActorId, knobs: Knobs) -> R<Node> {
        let db = dir.join("corrosion.db");
        if !db.exists() {
            precreate_db(&db, actor)?;
        }
        let conf = make_config(&dir, &knobs)?;
        let (tripwire, worker, tripwire_tx) = Tripwire::new_simple();
        tokio::spawn(worker);

        let (agent, mut opts): (Agent, AgentOptions) = setup(conf.clone(), tripwire)
            .await
            .map_err(|e| SimError::Harness(format!("setup failed: {e:?}")))?;
        if agent.actor_id() != actor {
            return Err(SimError::Harness(format!(
                "seeded actor id not honoured: {} != {}",
                agent.actor_id(),
                actor
            )));
        }

        let (d_bcast_tx, d_bcast_rx) = bounded(4, "dummy_bcast");
        let (d_apply_tx, d_apply_rx) = bounded(4, "dummy_apply");
        let (d_clear_tx, d_clear_rx) = bounded(4, "dummy_clear");
        let rx_bcast = if knobs.real_bcast {
            d_bcast_rx
        } else {
            std::mem::replace(&mut opts.rx_bcast, d_bcast_rx)
        };
        let transport = opts.transport.clone();
        let rx_apply = std::mem::replace(&mut opts.rx_apply, d_apply_rx);
        let rx_clear = std::mem::replace(&mut opts.rx_clear_buf, d_clear_rx);
        let (rx_changes, d_changes_tx) = if knobs.real_ingest {
            (None, None)
        } else {
            let (tx, rx) = bounded(4, "dummy_changes");
            (Some(std::mem::replace(&mut opts.rx_changes, rx)), Some(tx))
        };

        let subs_cache = opts.subs_bcast_cache.clone();
        let updates_cache = opts.updates_bcast_cache.clone();
        let tripwire_clone = opts.tripwire.clone();
        let (bookie, handles) = klukai_agent::agent::verif::run(agent.clone(), opts, conf.perf)
            .await
            .map_err(|e| SimError::Harness(format!("run failed: {e:?}")))?;

        let mut node = Node {
            idx,
            dir,
            actor,
            agent,
            bookie,
            opts_subs: None,
            subs_cache,
            updates_cache,
            tripwire: tripwire_clone,
            transport,
            rx_bcast,
            rx_apply,
            rx_clear,
            rx_changes,
            _dummies: Dummies {
                bcast: d_bcast_tx,
                apply: d_apply_tx,
                clear: d_clear_tx,
                changes: d_changes_tx,
            },
            tripwire_tx,
            handles,
            outbox: vec![],
            apply_backlog: vec![],
            clear_backlog: vec![],
            knobs,
        };
        // own Booked is loaded asynchronously under its write lock: wait for it
        {
            let _g = node
                .agent
                .booked()
                .read::<&str, _>("sim(wait init)", None)
                .await;
        }
        node.quiesce().await?;
        Ok(node)
    }

    /// Move everything the node emitted into the sim-owned backlogs and wait
    /// until no detached delivery task is in flight (exact, via hook counters).
    pub async fn quiesce(&mut self) -> R<()> {
        let start = Instant::now();
        loop {
            // read the counter BEFORE draining: if it was zero, every send had completed
            // before the drain below started, so the drain sees everything
            let pending_before = verif::pending();
            let mut moved = false;
            while let Ok(x) = self.rx_bcast.try_recv() {
                moved = true;
                match x {
                    BroadcastInput::AddBroadcast(BroadcastV1::Change(c)) => {
                        self.outbox.push((false, c))
                    }
                    BroadcastInput::Rebroadcast(BroadcastV1::Change(c)) => {
                        self.outbox.push((true, c))
                    }
                }
            }
            while let Ok(x) = self.rx_apply.try_recv() {
                moved = true;
                self.apply_backlog.push(x);
            }
            while let Ok(x) = self.rx_clear.try_recv() {
                moved = true;
                self.clear_backlog.push(x);
            }
            // tasks parked at a simulator gate are deliberately held back
            let parked = verif::gate_parked("bcast") as i64;
            if !moved && pending_before - parked <= 0 {
                break;
            }
            if start.elapsed() > Duration::from_secs(60) {
                return Err(SimError::Harness(format!(
                    "quiescence watchdog: pending={}",
                    verif::pending()
                )));
            }
            tokio::task::yield_now().await;
            if !moved {
                tokio::time::sleep(Duration::from_micros(50)).await;
            }
        }
        // canonical order: what leaves real code is a set (each announcement chunk is sent by
        // its own spawned task, so their channel order is the runtime's choice)
        self.outbox.sort_by_key(|(rb, c)| (*rb, c.actor_id, c.versions().start().0, c.seqs().map(|s| s.start().0).unwrap_or(0)));
        self.apply_backlog.sort();
        self.apply_backlog.dedup();
        self.clear_backlog
            .sort_by_key(|(a, r)| (*a, *r.start(), *r.end()));
        self.clear_backlog.dedup();
        Ok(())
    }

    pub async fn schema(&self, sql: Vec<String>) -> (u16, ExecResponse) {
        let (status, Json(resp)) = api_v1_db_schema(Extension(self.agent.clone()), Json(sql)).await;
        (status.as_u16(), resp)
    }

    pub async fn write(
        &mut self,
        stmts: Vec<Statement>,
        timeout: Option<u64>,
    ) -> R<(u16, ExecResponse)> {
        let (status, Json(resp)) = api_v1_transactions(
            Extension(self.agent.clone()),
            Query(TimeoutParams { timeout }),
            Json(stmts),
        )
        .await;
        self.quiesce().await?;
        Ok((status.as_u16(), resp))
    }

    pub async fn deliver(&mut self, batch: Vec<(ChangeV1, ChangeSource)>) -> R<Result<(), String>> {
        let now = Instant::now();
        let batch = batch.into_iter().map(|(c, s)| (c, s, now)).collect();
        let res = process_multiple_changes(
            self.agent.clone(),
            self.bookie.clone(),
            batch,
            Duration::from_secs(self.knobs.sql_tx_timeout as u64),
        )
        .await;
        self.quiesce().await?;
        Ok(res.map_err(|e| e.to_string()))
    }

    pub async fn apply(
        &mut self,
        actor: ActorId,
        version: CrsqlDbVersion,
    ) -> R<Result<bool, String>> {
        let res = util::process_fully_buffered_changes(
            &self.agent,
            &self.bookie,
            actor,
            version,
            Duration::from_secs(self.knobs.sql_tx_timeout as u64),
        )
        .await;
        self.quiesce().await?;
        Ok(res.map_err(|e| e.to_string()))
    }

    /// One pass of the production clear-buffer task for one trigger.
    pub async fn clear_buf(
        &mut self,
        actor: ActorId,
        range: RangeInclusive<CrsqlDbVersion>,
    ) -> R<()> {
        let (tx, rx) = bounded(1, "sim_clear");
        let before = verif::pending_total();
        let h = tokio::spawn(util::clear_buffered_meta_loop(self.agent.clone(), rx));
        tx.send((actor, range))
            .await
            .map_err(|_| SimError::Harness("clear loop gone".into()))?;
        // the loop spawns one task per trigger (counted by the hook); wait until
        // it has been spawned, then until it is done
        let start = Instant::now();
        while verif::pending_total() == before {
            if start.elapsed() > Duration::from_secs(30) {
                return Err(SimError::Harness("clear loop did not pick up the trigger".into()));
            }
            tokio::task::yield_now().await;
        }
        self.quiesce().await?;
        h.abort();
        drop(tx);
        Ok(())
    }

    pub async fn sync_state(&self) -> SyncStateV1 {
        generate_sync(&self.bookie, self.actor).await
    }

    /// Run the production sync server loop against a list of request frames;
    /// returns every message it produced (order as received).
    pub async fn serve(&self, frames: Vec<SyncRequestV1>) -> R<(Vec<SyncMessage>, Option<String>)> {
        let (tx_need, rx_need) = mpsc::channel::<SyncRequestV1>(frames.len().max(1) + 1);
        let (tx_msg, mut rx_msg) = mpsc::channel::<SyncMessage>(64);
        let pool = self.agent.pool().clone();
        let bookie = self.bookie.clone();
        let h = tokio::spawn(async move {
            klukai_agent::api::peer::verif::process_sync(pool, bookie, tx_msg, rx_need).await
        });
        for f in frames {
            tx_need
                .send(f)
                .await
                .map_err(|_| SimError::Harness("sync server gone".into()))?;
        }
        drop(tx_need);
        let mut out = vec![];
        while let Some(m) = rx_msg.recv().await {
            out.push(m);
        }
        let res = h
            .await
            .map_err(|e| SimError::Harness(format!("process_sync panicked: {e}")))?;
        Ok((out, res.err().map(|e| e.to_string())))
    }

    /// Start the production sync server loop with the "need-step" gate armed:
    /// handle_need parks at every decision point until `ServeSession::step`.
    pub async fn serve_start(&self, frames: Vec<SyncRequestV1>) -> R<ServeSession> {
        klukai_types::verif::gate_arm("need-step");
        let (tx_need, rx_need) = mpsc::channel::<SyncRequestV1>(frames.len().max(1) + 1);
        let (tx_msg, rx_msg) = mpsc::channel::<SyncMessage>(100_000);
        let pool = self.agent.pool().clone();
        let bookie = self.bookie.clone();
        let h = tokio::spawn(async move {
            klukai_agent::api::peer::verif::process_sync(pool, bookie, tx_msg, rx_need).await
        });
        for f in frames {
            tx_need
                .send(f)
                .await
                .map_err(|_| SimError::Harness("sync server gone".into()))?;
        }
        drop(tx_need);
        Ok(ServeSession { h, rx_msg })
    }

    /// What the production inbound handlers queued for ingestion (the simulator owns the queue).
    pub fn drain_changes(&mut self) -> Vec<(ChangeV1, ChangeSource)> {
        let mut out = vec![];
        if let Some(rx) = self.rx_changes.as_mut() {
            while let Ok(x) = rx.try_recv() {
                out.push(x);
            }
        }
        out
    }

    /// One round of the production sync client (`parallel_sync`) towards `members` over the
    /// nodes' real QUIC endpoints. Whatever it hands to the ingest queue (which the simulator
    /// owns) is collected while it runs, so a small queue never stalls the session.
    pub async fn wire_sync(
        &mut self,
        members: Vec<(ActorId, std::net::SocketAddr)>,
        ours: SyncStateV1,
    ) -> R<(Result<usize, String>, Vec<ChangeV1>)> {
        let agent = self.agent.clone();
        let transport = self.transport.clone();
        let mut h = tokio::spawn(async move {
            klukai_agent::api::peer::parallel_sync(&agent, &transport, members, ours)
                .await
                .map_err(|e| e.to_string())
        });
        let mut got = vec![];
        let t0 = Instant::now();
        let res = loop {
            for (cv, _) in self.drain_changes() {
                got.push(cv);
            }
            if h.is_finished() {
                break (&mut h)
                    .await
                    .map_err(|e| SimError::Harness(format!("parallel_sync panicked: {e}")))?;
            }
            if t0.elapsed() > Duration::from_secs(90) {
                h.abort();
                return Err(SimError::Harness("wire sync session did not finish".into()));
            }
            tokio::time::sleep(Duration::from_micros(200)).await;
        };
        for (cv, _) in self.drain_changes() {
            got.push(cv);
        }
        Ok((res, got))
    }

    pub fn offer_sender(&self) -> CorroSender<(ChangeV1, ChangeSource)> {
        self.agent.tx_changes().clone()
    }

    pub fn take_rx_changes(&mut self) -> Option<CorroReceiver<(ChangeV1, ChangeSource)>> {
        self.rx_changes.take()
    }

    /// Fire the tripwire (used both for graceful shutdown and for retiring an
    /// abandoned incarnation after a crash snapshot was taken).
    pub async fn trip(&self) {
        let _ = self.tripwire_tx.send(()).await;
    }

    /// Production shutdown order (command/agent.rs).
    pub async fn shutdown_graceful(mut self) -> R<()> {
        self.stop_tasks().await;
        self.agent.subs_manager().drop_handles().await;
        Ok(())
    }

    /// First half of the production shutdown: tripwire, then wait for the agent's tasks.
    /// (Subscriptions keep draining until `drop_handles`.)
    pub async fn stop_tasks(&mut self) {
        self.trip().await;
        for h in self.handles.drain(..) {
            let _ = tokio::time::timeout(Duration::from_secs(20), h).await;
        }
    }
}

pub struct ServeSession {
    h: tokio::task::JoinHandle<eyre::Result<()>>,
    rx_msg: mpsc::Receiver<SyncMessage>,
}

impl ServeSession {
    /// true = the server is parked at a decision point; false = it finished.
    /// Both conditions are stable, so polling them is exact.
    pub async fn wait(&mut self) -> R<bool> {
        let t0 = std::time::Instant::now();
        loop {
            if klukai_types::verif::gate_parked("need-step") > 0 {
                return Ok(true);
            }
            if self.h.is_finished() {
                return Ok(false);
            }
            if t0.elapsed() > Duration::from_secs(60) {
                return Err(SimError::Harness("sync server neither parked nor finished".into()));
            }
            tokio::time::sleep(Duration::from_micros(50)).await;
        }
    }

    pub fn step(&self) {
        klukai_types::verif::gate_step("need-step");
    }

    pub async fn finish(mut self) -> R<(Vec<SyncMessage>, Option<String>)> {
        klukai_types::verif::gate_release("need-step");
        let mut out = vec![];
        while let Some(m) = self.rx_msg.recv().await {
            out.push(m);
        }
        let res = self
            .h
            .await
            .map_err(|e| SimError::Harness(format!("process_sync panicked: {e}")))?;
        Ok((out, res.err().map(|e| e.to_string())))
    }
}

pub fn changeset_msgs(msgs: Vec<SyncMessage>) -> Vec<ChangeV1> {
    msgs.into_iter()
        .filter_map(|m| match m {
            SyncMessage::V1(SyncMessageV1::Changeset(c)) => Some(c),
            _ => None,
        })
        .collect()
}

pub fn stmt(sql: &str, params: Vec<SqliteParam>) -> Statement {
    if params.is_empty() {
        Statement::Simple(sql.to_string())
    } else {
        Statement::WithParams(sql.to_string(), params)
    }
}

pub fn exec_errors(resp: &ExecResponse) -> Vec<String> {
    resp.results
        .iter()
        .filter_map(|r| match r {
            ExecResult::Error { error } => Some(error.clone()),
            _ => None,
        })
        .collect()
}

/// Copy the node directory (db, wal, shm, subscriptions/...) – the image a
/// `kill -9` would leave at this instant.
pub fn snapshot_dir(from: &Path, to: &Path) -> std::io::Result<()> {
    std::fs::create_dir_all(to)?;
    for entry in std::fs::read_dir(from)? {
        let entry = entry?;
        let ft = entry.file_type()?;
        let dst = to.join(entry.file_name());
        // a file that vanishes between listing and copying (SQLite removes -wal / -shm when the
        // last connection closes, a finishing subscription removes its directory) is simply
        // not part of the image, as if the image had been taken a moment later
        let r = if ft.is_dir() {
            snapshot_dir(&entry.path(), &dst)
        } else if ft.is_file() {
            std::fs::copy(entry.path(), dst).map(|_| ())
        } else {
            Ok(())
        };
        match r {
            Err(e) if e.kind() == std::io::ErrorKind::NotFound => {}
            other => other?,
        }
    }
    Ok(())
}
