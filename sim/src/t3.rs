//! T3: ingest tier (C10). The real `handle_changes` loop of one node is fed
//! through `tx_changes` with real changesets produced by 2-4 real origin nodes,
//! with tiny queues and the write connection held by the simulator (busy
//! database) so that the queue overflows; afterwards everything the node does
//! not hold is re-offered, one changeset at a time.

use std::{
    collections::{BTreeMap, BTreeSet},
    path::Path,
    time::{Duration, Instant},
};

use klukai_types::{
    actor::ActorId,
    agent::WriteConn,
    base::{CrsqlDbVersion, CrsqlSeq},
    broadcast::{ChangeSource, ChangeV1, Changeset},
    change::Change,
    verif,
};
use serde::{Deserialize, Serialize};
use serde_json::json;

use crate::{
    SimError,
    model::{SCHEMA_T1, Shadow, Stmt, TABLES_T1, dump_clock, dump_tables, first_diff, read_version_changes},
    node::{Knobs, Node, R, seeded_actor, stmt},
    rng::Rng,
    t1::{RunCfg, gen_::Gen},
    trace::{RunOutcome, Stats, Violation, fnv},
};

#[derive(Serialize, Deserialize, Clone, Debug, PartialEq)]
#[serde(tag = "op")]
pub enum Ev {
    /// local transaction on an origin node (produces the changesets offered later)
    Write { origin: usize, stmts: Vec<Stmt> },
    /// offer chunk `chunk` of (origin, version) to the ingest loop
    Offer { origin: usize, version: u64, chunk: usize, sync: bool },
    /// the simulator takes the node's write connection (database busy)
    Hold,
    Release,
    /// wait until the ingest loop is idle, then run scheduled background applies
    Settle,
    /// everything not held is offered again, one changeset at a time
    Reoffer,
}

#[derive(Serialize, Deserialize, Clone, Debug)]
pub struct Cfg {
    pub origins: usize,
    pub processing_queue_len: usize,
    pub apply_queue_len: usize,
    pub changes_channel_len: usize,
    pub writes: usize,
    pub p_large: f64,
    pub p_dup: f64,
    pub max_reoffer_rounds: usize,
    /// what is offered again after the overload: the origin's chunks one by one, or each
    /// missing version as one complete changeset (what a sync session delivers)
    #[serde(default)]
    pub reoffer_whole: bool,
}

struct World {
    cfg: Cfg,
    ingest: Node,
    origins: Vec<Node>,
    actors: Vec<ActorId>,
    /// (origin, version) -> chunks as broadcast by the origin, reference changes
    versions: BTreeMap<(usize, u64), (Vec<ChangeV1>, Vec<Change>)>,
    held_conn: Option<WriteConn>,
    sent: u64,
    stats: Stats,
    log: Vec<String>,
    run_dir: std::path::PathBuf,
    offered: BTreeSet<(usize, u64)>,
    /// reference database: merges complete versions in the order the node applied them
    /// (cr-sqlite's result for an incomplete history depends on the merge order)
    shadow: Shadow,
    applied: BTreeSet<(usize, u64)>,
}

fn vio(class: &str, detail: serde_json::Value) -> Violation {
    Violation::new("C10", class, detail)
}

impl World {
    async fn new(seed: u64, cfg: Cfg, dir: &Path) -> R<World> {
        std::fs::create_dir_all(dir)?;
        verif::ingest_reset();
        let _ = verif::applied_take();
        reset_dropped();
        let mut knobs = Knobs::default();
        knobs.real_ingest = true;
        knobs.processing_queue_len = cfg.processing_queue_len;
        knobs.apply_queue_len = cfg.apply_queue_len;
        knobs.changes_channel_len = cfg.changes_channel_len;
        let ingest_actor = seeded_actor(seed, 9);
        let ingest = Node::boot(9, dir.join("ingest"), ingest_actor, knobs).await?;
        let (st, resp) = ingest
            .schema(SCHEMA_T1.iter().map(|s| s.to_string()).collect())
            .await;
        if st != 200 {
            return Err(SimError::Harness(format!("schema: {:?}", resp.results)));
        }
        let mut origins = vec![];
        let mut actors = vec![];
        for i in 0..cfg.origins {
            let a = seeded_actor(seed, i);
            let n = Node::boot(i, dir.join(format!("o{i}")), a, Knobs::default()).await?;
            let (st, resp) = n.schema(SCHEMA_T1.iter().map(|s| s.to_string()).collect()).await;
            if st != 200 {
                return Err(SimError::Harness(format!("schema: {:?}", resp.results)));
            }
            origins.push(n);
            actors.push(a);
        }
        Ok(World {
            cfg,
            ingest,
            origins,
            actors,
            versions: BTreeMap::new(),
            held_conn: None,
            sent: 0,
            stats: Stats::default(),
            log: vec![],
            run_dir: dir.to_path_buf(),
            offered: BTreeSet::new(),
            shadow: Shadow::create(&dir.join("shadow.db"), ingest_actor, SCHEMA_T1, TABLES_T1)?,
            applied: BTreeSet::new(),
        })
    }

    async fn wait_idle(&mut self) -> R<()> {
        let start = Instant::now();
        loop {
            let (recv, busy, q, j) = verif::ingest_snapshot();
            if recv == self.sent && !busy && q == 0 && j == 0 {
                break;
            }
            if start.elapsed() > Duration::from_secs(60) {
                return Err(SimError::Harness(format!(
                    "ingest loop did not become idle: sent={} recv={recv} busy={busy} queue={q} jobs={j}",
                    self.sent
                )));
            }
            tokio::task::yield_now().await;
            tokio::time::sleep(Duration::from_micros(100)).await;
        }
        self.ingest.quiesce().await
    }

    /// the loop has received everything sent (it may still have queued / running work)
    async fn wait_received(&mut self) -> R<()> {
        let start = Instant::now();
        loop {
            let (recv, busy, _, _) = verif::ingest_snapshot();
            if recv == self.sent && !busy {
                return Ok(());
            }
            if start.elapsed() > Duration::from_secs(60) {
                return Err(SimError::Harness("ingest loop stopped receiving".into()));
            }
            tokio::task::yield_now().await;
            tokio::time::sleep(Duration::from_micros(50)).await;
        }
    }

    async fn offer(&mut self, c: ChangeV1, sync: bool) -> R<()> {
        let src = if sync { ChangeSource::Sync } else { ChangeSource::Broadcast };
        self.ingest
            .offer_sender()
            .send((c, src))
            .await
            .map_err(|_| SimError::Harness("ingest channel closed".into()))?;
        self.sent += 1;
        Ok(())
    }

    async fn holds(&self, origin: usize, version: u64) -> (bool, bool) {
        // (claims the whole version, claims some sequences of it)
        let booked = self
            .ingest
            .bookie
            .read::<&str, _>("sim", None)
            .await
            .get(&self.actors[origin])
            .cloned();
        match booked {
            None => (false, false),
            Some(b) => {
                let br = b.read::<&str, _>("sim", None).await;
                let v = CrsqlDbVersion(version);
                // a completely buffered version is applied by `settle` before anyone asks;
                // its (complete) partial record lingers in memory afterwards
                let incomplete = br.get_partial(&v).is_some_and(|p| {
                    p.seqs.gaps(&(CrsqlSeq(0)..=p.last_seq)).next().is_some()
                });
                (br.contains_version(&v) && !incomplete, incomplete)
            }
        }
    }

    /// Safety: whatever the node claims to hold is really stored.
    async fn check_claims(&mut self) -> R<Result<(), Violation>> {
        self.stats.oracle_checks += 1;
        let conn = self
            .ingest
            .agent
            .pool()
            .read()
            .await
            .map_err(|e| SimError::Harness(format!("pool: {e}")))?;
        // reference: merge of every version the node applied, in the node's order
        for (actor, v) in verif::applied_take() {
            let Some(o) = self.actors.iter().position(|a| a.to_bytes() == actor) else {
                continue;
            };
            let Some((_, reference)) = self.versions.get(&(o, v)) else {
                return Ok(Err(vio("applied-version-never-written", json!({"origin": o, "version": v}))));
            };
            self.shadow.merge(reference)?;
            self.applied.insert((o, v));
        }
        let keys: Vec<(usize, u64)> = self.versions.keys().cloned().collect();
        for (o, v) in keys {
            let (whole, partial) = self.holds(o, v).await;
            if whole {
                if !self.offered.contains(&(o, v)) {
                    return Ok(Err(vio(
                        "claims-version-never-offered",
                        json!({"origin": o, "version": v}),
                    )));
                }
                if !self.applied.contains(&(o, v)) {
                    return Ok(Err(vio(
                        "claims-version-never-applied",
                        json!({"origin": o, "version": v}),
                    )));
                }
            } else if partial {
                // claimed sequences must be buffered
                let booked = self.ingest.bookie.read::<&str, _>("sim", None).await.get(&self.actors[o]).cloned().unwrap();
                let br = booked.read::<&str, _>("sim", None).await;
                let p = br.get_partial(&CrsqlDbVersion(v)).unwrap().clone();
                drop(br);
                let rows: BTreeSet<u64> = conn
                    .prepare_cached("SELECT seq FROM __corro_buffered_changes WHERE site_id = ? AND db_version = ?")?
                    .query_map(rusqlite::params![self.actors[o], v], |r| r.get(0))?
                    .collect::<rusqlite::Result<_>>()?;
                for ch in self.versions[&(o, v)].1.iter() {
                    if p.seqs.contains(&CrsqlSeq(ch.seq.0)) && !rows.contains(&ch.seq.0) {
                        return Ok(Err(vio(
                            "claims-sequences-not-buffered",
                            json!({"origin": o, "version": v, "seq": ch.seq.0}),
                        )));
                    }
                }
            }
        }
        let t_node = dump_tables(&conn, TABLES_T1)?;
        let t_ref = dump_tables(&self.shadow.conn, TABLES_T1)?;
        if t_node != t_ref {
            return Ok(Err(vio(
                "held-versions-do-not-match-tables",
                json!({"diff(node,reference)": first_diff(&t_node, &t_ref)}),
            )));
        }
        let names = BTreeMap::new();
        let c_node = dump_clock(&conn, false, &names)?;
        let c_ref = dump_clock(&self.shadow.conn, false, &names)?;
        if c_node != c_ref {
            return Ok(Err(vio(
                "held-versions-do-not-match-crdt-metadata",
                json!({"diff(node,reference)": first_diff(&c_node, &c_ref)}),
            )));
        }
        Ok(Ok(()))
    }

    async fn settle(&mut self) -> R<Result<(), Violation>> {
        if self.held_conn.is_some() {
            self.wait_received().await?;
            return Ok(Ok(()));
        }
        self.wait_idle().await?;
        // background applies of completely buffered versions (sim-owned trigger queue)
        for _ in 0..3 {
            let backlog = std::mem::take(&mut self.ingest.apply_backlog);
            if backlog.is_empty() {
                break;
            }
            for (a, v) in backlog {
                let r = self.ingest.apply(a, v).await?;
                if let Err(e) = r {
                    return Ok(Err(vio("apply-failed", json!({"error": e}))));
                }
            }
        }
        let clears = std::mem::take(&mut self.ingest.clear_backlog);
        for (a, r) in clears {
            self.ingest.clear_buf(a, r).await?;
        }
        self.check_claims().await
    }

    async fn exec(&mut self, ev: &Ev) -> R<Result<(), Violation>> {
        self.stats.steps += 1;
        match ev {
            Ev::Write { origin, stmts } => {
                self.stats.ev("Write");
                let o = *origin;
                if o >= self.origins.len() {
                    return Ok(Ok(()));
                }
                let api = stmts
                    .iter()
                    .map(|s| stmt(&s.sql, s.params.iter().map(|p| p.to_param()).collect()))
                    .collect();
                let (status, resp) = self.origins[o].write(api, None).await?;
                let outbox = std::mem::take(&mut self.origins[o].outbox);
                if status == 200 {
                    if let Some(v) = resp.version {
                        let conn = self.origins[o].agent.pool().read().await.map_err(|e| SimError::Harness(e.to_string()))?;
                        let reference = read_version_changes(&conn, self.actors[o], v)?;
                        let mut chunks: Vec<ChangeV1> = outbox.into_iter().map(|(_, c)| c).collect();
                        chunks.sort_by_key(|c| c.seqs().map(|s| s.start().0));
                        self.log.push(format!("write o{o} v{v} chunks={}", chunks.len()));
                        self.versions.insert((o, v), (chunks, reference));
                    }
                }
                Ok(Ok(()))
            }
            Ev::Offer { origin, version, chunk, sync } => {
                self.stats.ev("Offer");
                let Some((chunks, _)) = self.versions.get(&(*origin, *version)) else {
                    return Ok(Ok(()));
                };
                let Some(c) = chunks.get(*chunk).cloned() else {
                    return Ok(Ok(()));
                };
                if self.offered.contains(&(*origin, *version)) {
                    self.stats.fault("duplicate-offer");
                }
                self.offered.insert((*origin, *version));
                if self.held_conn.is_some() {
                    self.stats.fault("offer-while-database-busy");
                }
                self.log.push(format!("offer o{origin} v{version} c{chunk}"));
                self.offer(c, *sync).await?;
                self.wait_received().await?;
                Ok(Ok(()))
            }
            Ev::Hold => {
                self.stats.ev("Hold");
                if self.held_conn.is_none() {
                    tri_idle(self).await?;
                    let c = self
                        .ingest
                        .agent
                        .pool()
                        .write_normal()
                        .await
                        .map_err(|e| SimError::Harness(format!("hold: {e}")))?;
                    self.held_conn = Some(c);
                    self.stats.fault("write-connection-held");
                    self.log.push("hold".into());
                }
                Ok(Ok(()))
            }
            Ev::Release => {
                self.stats.ev("Release");
                if self.held_conn.take().is_some() {
                    self.log.push("release".into());
                }
                self.settle().await
            }
            Ev::Settle => {
                self.stats.ev("Settle");
                self.settle().await
            }
            Ev::Reoffer => {
                self.stats.ev("Reoffer");
                self.held_conn = None;
                if let Err(v) = self.settle().await? {
                    return Ok(Err(v));
                }
                let dropped = crate::t3::dropped_count();
                self.stats.probe_n("queue.dropped", dropped);
                for round in 1..=self.cfg.max_reoffer_rounds {
                    let mut missing = vec![];
                    let keys: Vec<(usize, u64)> = self.versions.keys().cloned().collect();
                    for (o, v) in keys {
                        let (whole, _) = self.holds(o, v).await;
                        if !whole {
                            missing.push((o, v));
                        }
                    }
                    if missing.is_empty() {
                        self.stats.probe_n("reoffer.rounds-needed", (round - 1) as u64);
                        self.stats.converged = true;
                        return self.check_claims().await;
                    }
                    self.log.push(format!("reoffer round {round}: missing {}", missing.len()));
                    for (o, v) in missing {
                        let mut chunks = self.versions[&(o, v)].0.clone();
                        if self.cfg.reoffer_whole && chunks.len() > 1 {
                            // the whole version in one changeset, spanning whatever was kept
                            if let Changeset::Full { version, last_seq, ts, .. } = &chunks[0].changeset {
                                self.stats.fault("reoffered-as-one-complete-changeset");
                                chunks = vec![ChangeV1 {
                                    actor_id: chunks[0].actor_id,
                                    changeset: Changeset::Full {
                                        version: *version,
                                        changes: self.versions[&(o, v)].1.clone(),
                                        seqs: CrsqlSeq(0)..=*last_seq,
                                        last_seq: *last_seq,
                                        ts: *ts,
                                    },
                                }];
                            }
                        }
                        self.offered.insert((o, v));
                        for c in chunks {
                            // one at a time: the overload is over
                            self.offer(c, true).await?;
                            self.wait_idle().await?;
                        }
                    }
                    if let Err(v) = self.settle().await? {
                        return Ok(Err(v));
                    }
                }
                let mut still = vec![];
                let keys: Vec<(usize, u64)> = self.versions.keys().cloned().collect();
                for (o, v) in keys {
                    let (whole, partial) = self.holds(o, v).await;
                    if !whole {
                        still.push(json!({"origin": o, "version": v, "partial": partial}));
                    }
                }
                if still.is_empty() {
                    self.stats.converged = true;
                    return self.check_claims().await;
                }
                Ok(Err(vio(
                    "re-offered-change-never-accepted",
                    json!({"rounds": self.cfg.max_reoffer_rounds, "still_missing": still, "dropped_from_queue": dropped}),
                )))
            }
        }
    }
}

async fn tri_idle(w: &mut World) -> R<()> {
    w.wait_idle().await
}

static DROPPED: std::sync::atomic::AtomicU64 = std::sync::atomic::AtomicU64::new(0);

/// number of changes shed from the queue, measured through the node's own metric
pub fn dropped_count() -> u64 {
    DROPPED.load(std::sync::atomic::Ordering::SeqCst)
}

pub fn draw_cfg(r: &mut Rng) -> Cfg {
    Cfg {
        origins: r.range(2, 4) as usize,
        processing_queue_len: r.range(1, 8) as usize,
        apply_queue_len: r.range(1, 20) as usize,
        changes_channel_len: r.range(1, 4) as usize,
        writes: r.range(8, 40) as usize,
        p_large: if r.chance(0.4) { 0.1 } else { 0.0 },
        p_dup: r.f64() * 0.3,
        max_reoffer_rounds: 3,
        reoffer_whole: r.chance(0.4),
    }
}

pub async fn run_events(seed: u64, cfg: Cfg, events: &[Ev], base: &Path, tag: &str) -> R<RunOutcome> {
    let dir = base.join(format!("t3-{}-{seed:016x}-{tag}", std::process::id()));
    let _ = std::fs::remove_dir_all(&dir);
    let mut w = World::new(seed, cfg.clone(), &dir).await?;
    let mut violation = None;
    let mut done = vec![];
    for (i, ev) in events.iter().enumerate() {
        done.push(ev.clone());
        if let Err(mut v) = w.exec(ev).await? {
            v.step = i + 1;
            violation = Some(v);
            break;
        }
    }
    finish(w, seed, cfg, done, violation, &dir)
}

fn finish(
    w: World,
    seed: u64,
    cfg: Cfg,
    done: Vec<Ev>,
    violation: Option<Violation>,
    dir: &Path,
) -> R<RunOutcome> {
    let mut stats = w.stats.clone();
    let mut sh = 0xcbf2_9ce4_8422_2325;
    for e in &done {
        let s = match e {
            Ev::Write { origin, .. } => format!("W{origin}"),
            Ev::Offer { origin, chunk, .. } => format!("O{origin}{chunk}"),
            Ev::Hold => "H".into(),
            Ev::Release => "R".into(),
            Ev::Settle => "S".into(),
            Ev::Reoffer => "X".into(),
        };
        fnv(&mut sh, s.as_bytes());
    }
    stats.schedule_hash = sh;
    stats.nontrivial = stats.faults.get("offer-while-database-busy").copied().unwrap_or(0) > 0;
    let mut h = 0xcbf2_9ce4_8422_2325;
    // canonical log: what was offered, in order (outcomes under overload are timing free:
    // offers while busy are deterministic, other offers are settled one by one)
    for l in &w.log {
        fnv(&mut h, l.as_bytes());
    }
    if let Some(v) = &violation {
        fnv(&mut h, v.class.as_bytes());
    }
    let _ = std::fs::remove_dir_all(dir);
    Ok(RunOutcome {
        seed,
        tier: "t3".into(),
        config: serde_json::to_value(&cfg)?,
        events: done.iter().map(|e| serde_json::to_value(e).unwrap()).collect(),
        violation,
        known: vec![],
        stats,
        log_digest: h,
    })
}

pub async fn run_generated(seed: u64, base: &Path) -> R<RunOutcome> {
    let mut r = Rng::new(seed).fork("t3cfg");
    let cfg = draw_cfg(&mut r);
    let mut events = vec![];
    // phase A: origins write
    let mut g = Gen::new(seed);
    let wl = RunCfg {
        nodes: cfg.origins,
        keys: 4,
        max_events: 0,
        max_writes: 0,
        w_write: 0,
        w_deliver: 0,
        w_apply: 0,
        w_clear: 0,
        w_sync: 0,
        w_recut: 0,
        w_drop: 0,
        w_crash: 0,
        w_restart: 0,
        p_large: cfg.p_large,
        p_fail_stmt: 0.0,
        p_dup: 0.0,
        max_rounds: 0,
        focus: "C10".into(),
    };
    for _ in 0..cfg.writes {
        let o = r.usize_below(cfg.origins);
        events.push(Ev::Write { origin: o, stmts: g.gen_write(&wl, o) });
    }
    // we need to know the produced versions to schedule offers: execute phase A first
    let dir = base.join(format!("t3-{}-{seed:016x}-g", std::process::id()));
    let _ = std::fs::remove_dir_all(&dir);
    let mut w = World::new(seed, cfg.clone(), &dir).await?;
    let mut violation = None;
    let mut done = vec![];
    for ev in events.iter() {
        done.push(ev.clone());
        if let Err(v) = w.exec(ev).await? {
            violation = Some(v);
            break;
        }
    }
    if violation.is_none() {
        // phase B: offers, interleaved across actors, partly while the database is busy
        let mut pool: Vec<(usize, u64, usize)> = w
            .versions
            .iter()
            .flat_map(|((o, v), (chunks, _))| (0..chunks.len()).map(move |c| (*o, *v, c)))
            .collect();
        r.shuffle(&mut pool);
        let mut plan: Vec<Ev> = vec![];
        let mut held = false;
        let p_hold = 0.15 + r.f64() * 0.3;
        let mut i = 0;
        while i < pool.len() {
            if !held && r.chance(p_hold) {
                plan.push(Ev::Hold);
                held = true;
            } else if held && r.chance(0.08) {
                plan.push(Ev::Release);
                held = false;
            }
            let (o, v, c) = pool[i];
            plan.push(Ev::Offer { origin: o, version: v, chunk: c, sync: r.chance(0.5) });
            if r.chance(cfg.p_dup) {
                let (o2, v2, c2) = pool[r.usize_below(i + 1)];
                plan.push(Ev::Offer { origin: o2, version: v2, chunk: c2, sync: r.chance(0.5) });
            }
            if !held && r.chance(0.3) {
                plan.push(Ev::Settle);
            }
            i += 1;
        }
        plan.push(Ev::Reoffer);
        for (k, ev) in plan.iter().enumerate() {
            done.push(ev.clone());
            if let Err(mut v) = w.exec(ev).await? {
                v.step = cfg.writes + k + 1;
                violation = Some(v);
                break;
            }
        }
    }
    finish(w, seed, cfg, done, violation, &dir)
}

#[allow(dead_code)]
fn unused(_: Changeset) {}

/// Install a metrics recorder once per process so that the node's own
/// `corro.agent.changes.dropped` counter can be read.
pub fn install_metrics() {
    use metrics::{Counter, Gauge, Histogram, Key, KeyName, Metadata, Recorder, SharedString, Unit};
    struct Rec;
    struct DropCounter;
    impl metrics::CounterFn for DropCounter {
        fn increment(&self, v: u64) {
            DROPPED.fetch_add(v, std::sync::atomic::Ordering::SeqCst);
        }
        fn absolute(&self, _: u64) {}
    }
    impl Recorder for Rec {
        fn describe_counter(&self, _: KeyName, _: Option<Unit>, _: SharedString) {}
        fn describe_gauge(&self, _: KeyName, _: Option<Unit>, _: SharedString) {}
        fn describe_histogram(&self, _: KeyName, _: Option<Unit>, _: SharedString) {}
        fn register_counter(&self, key: &Key, _: &Metadata<'_>) -> Counter {
            if key.name() == "corro.agent.changes.dropped" {
                Counter::from_arc(std::sync::Arc::new(DropCounter))
            } else {
                Counter::noop()
            }
        }
        fn register_gauge(&self, _: &Key, _: &Metadata<'_>) -> Gauge {
            Gauge::noop()
        }
        fn register_histogram(&self, _: &Key, _: &Metadata<'_>) -> Histogram {
            Histogram::noop()
        }
    }
    let _ = metrics::set_global_recorder(Rec);
}

pub fn reset_dropped() {
    DROPPED.store(0, std::sync::atomic::Ordering::SeqCst);
}
