//! T6 groups (C20 c): the writer activities of one real node run *concurrently* in seeded
//! groups - local transaction, remote apply (several batches, several actors), background
//! apply of buffered versions, sync-state generation, sync serving, clear-buffer passes -
//! and every group must finish. Which task runs when inside a group is the runtime's choice
//! (the only place where the simulator does not decide who runs), so only facts that hold for
//! every interleaving are judged: the group completes, the acquisition trace has no cycle and
//! nobody awaits the write connection while holding a bookkeeping write lock, and after
//! everything was delivered the node's tables equal a corrosion-free merge of all versions.

use std::{
    path::Path,
    time::{Duration, Instant},
};

use axum::{Extension, Json, extract::Query};
use klukai_agent::{
    agent::util::{process_fully_buffered_changes, process_multiple_changes},
    api::public::{TimeoutParams, api_v1_transactions},
};
use klukai_types::{
    base::CrsqlDbVersion,
    broadcast::{ChangeSource, ChangeV1},
    sync::{SyncNeedV1, SyncRequestV1, generate_sync},
    verif,
};
use serde::{Deserialize, Serialize};
use serde_json::json;

use crate::{
    SimError,
    model::{SCHEMA_T1, Shadow, Stmt, TABLES_T1, dump_tables, first_diff, read_version_changes},
    node::{Knobs, Node, R, seeded_actor, stmt},
    rng::Rng,
    t1::{RunCfg, gen_::Gen},
    trace::{RunOutcome, Stats, Violation, fnv},
};

#[derive(Serialize, Deserialize, Clone, Debug, PartialEq)]
#[serde(tag = "act")]
pub enum Act {
    LocalWrite { stmts: Vec<Stmt> },
    /// one batch for process_multiple_changes: chunks picked (index mod remaining) from the
    /// not-yet-delivered chunks of the origins
    Deliver { picks: Vec<u32> },
    /// one task per completely buffered version waiting for its background apply
    Apply,
    GenSync,
    /// a sync session asking for everything up to the advertised heads
    Serve,
    /// one clear-buffer pass per pending trigger
    Clear,
}

#[derive(Serialize, Deserialize, Clone, Debug, PartialEq)]
#[serde(tag = "op")]
pub enum Ev {
    /// local transaction on an origin (0 / 1): its announcement chunks join the pending set
    Write { origin: usize, stmts: Vec<Stmt> },
    /// these activities start together on the subject node (yields before each one's start)
    Group { acts: Vec<Act>, stagger: Vec<u8> },
}

fn vio(class: &str, detail: serde_json::Value) -> Violation {
    Violation::new("C20", class, detail)
}

pub fn generate(seed: u64) -> Vec<Ev> {
    let mut r = Rng::new(seed).fork("t6");
    let mut g = Gen::new(seed);
    let wl = RunCfg {
        nodes: 3, keys: r.range(2, 5), max_events: 0, max_writes: 0, w_write: 0, w_deliver: 0, w_apply: 0, w_clear: 0, w_sync: 0,
        w_recut: 0, w_drop: 0, w_crash: 0, w_restart: 0, p_large: 0.25, p_fail_stmt: 0.05, p_dup: 0.0, max_rounds: 0, focus: "C20".into(),
    };
    let mut evs = vec![];
    let rounds = r.range(2, 6);
    for _ in 0..rounds {
        for _ in 0..r.range(1, 5) {
            let o = r.usize_below(2);
            evs.push(Ev::Write { origin: o, stmts: g.gen_write(&wl, o) });
        }
        for _ in 0..r.range(1, 3) {
            let n = r.range(2, 6) as usize;
            let mut acts = vec![];
            for _ in 0..n {
                acts.push(match r.weighted(&[22, 34, 16, 10, 10, 8]) {
                    0 => Act::LocalWrite { stmts: g.gen_write(&wl, 2) },
                    1 => Act::Deliver { picks: (0..r.range(1, 5)).map(|_| r.below(1 << 20) as u32).collect() },
                    2 => Act::Apply,
                    3 => Act::GenSync,
                    4 => Act::Serve,
                    _ => Act::Clear,
                });
            }
            let stagger = (0..n).map(|_| if r.chance(0.5) { 0 } else { r.below(12) as u8 }).collect();
            evs.push(Ev::Group { acts, stagger });
        }
    }
    evs
}

struct World {
    subject: Node,
    origins: Vec<Node>,
    /// chunks announced by the origins, not yet picked by a Deliver
    pending: Vec<ChangeV1>,
    all_chunks: Vec<ChangeV1>,
    /// reference changes of every origin version
    reference: Vec<Vec<klukai_types::change::Change>>,
    stats: Stats,
    log: Vec<String>,
}

async fn serve_everything(node_pool: klukai_types::agent::SplitPool, bookie: klukai_types::agent::Bookie, frames: Vec<SyncRequestV1>) -> Result<usize, String> {
    let (tx_need, rx_need) = tokio::sync::mpsc::channel::<SyncRequestV1>(frames.len().max(1) + 1);
    let (tx_msg, mut rx_msg) = tokio::sync::mpsc::channel(64);
    let h = tokio::spawn(async move { klukai_agent::api::peer::verif::process_sync(node_pool, bookie, tx_msg, rx_need).await });
    for f in frames {
        tx_need.send(f).await.map_err(|_| "sync server gone".to_string())?;
    }
    drop(tx_need);
    let mut n = 0;
    while rx_msg.recv().await.is_some() {
        n += 1;
    }
    match h.await {
        Ok(Ok(())) => Ok(n),
        Ok(Err(e)) => Err(e.to_string()),
        Err(e) => Err(format!("panicked: {e}")),
    }
}

impl World {
    async fn group(&mut self, acts: &[Act], stagger: &[u8]) -> R<Result<(), Violation>> {
        self.subject.quiesce().await?;
        let agent = self.subject.agent.clone();
        let bookie = self.subject.bookie.clone();
        let actor = self.subject.actor;
        let tx_timeout = Duration::from_secs(self.subject.knobs.sql_tx_timeout as u64);
        let mut names: Vec<String> = vec![];
        let mut tasks: Vec<tokio::task::JoinHandle<Result<(), String>>> = vec![];
        let mut clear_loops = vec![];
        let state = generate_sync(&bookie, actor).await;
        for (i, act) in acts.iter().enumerate() {
            let yields = stagger.get(i).copied().unwrap_or(0);
            match act {
                Act::LocalWrite { stmts } => {
                    let api: Vec<_> = stmts.iter().map(|s| stmt(&s.sql, s.params.iter().map(|p| p.to_param()).collect())).collect();
                    let agent = agent.clone();
                    names.push("local-write".into());
                    tasks.push(tokio::spawn(async move {
                        for _ in 0..yields {
                            tokio::task::yield_now().await;
                        }
                        // a failing statement is a legitimate outcome; only completion matters
                        let _ = api_v1_transactions(Extension(agent), Query(TimeoutParams { timeout: None }), Json(api)).await;
                        Ok(())
                    }));
                }
                Act::Deliver { picks } => {
                    let mut batch = vec![];
                    for p in picks {
                        if self.pending.is_empty() {
                            break;
                        }
                        let k = (*p as usize) % self.pending.len();
                        batch.push(self.pending.remove(k));
                    }
                    if batch.is_empty() {
                        continue;
                    }
                    let now = Instant::now();
                    let batch: Vec<_> = batch.into_iter().map(|c| (c, ChangeSource::Broadcast, now)).collect();
                    let (agent, bookie) = (agent.clone(), bookie.clone());
                    names.push(format!("remote-apply({})", batch.len()));
                    tasks.push(tokio::spawn(async move {
                        for _ in 0..yields {
                            tokio::task::yield_now().await;
                        }
                        process_multiple_changes(agent, bookie, batch, tx_timeout).await.map_err(|e| e.to_string())
                    }));
                }
                Act::Apply => {
                    for (a, v) in std::mem::take(&mut self.subject.apply_backlog) {
                        let (agent, bookie) = (agent.clone(), bookie.clone());
                        names.push("buffered-apply".into());
                        tasks.push(tokio::spawn(async move {
                            for _ in 0..yields {
                                tokio::task::yield_now().await;
                            }
                            process_fully_buffered_changes(&agent, &bookie, a, v, tx_timeout).await.map(|_| ()).map_err(|e| e.to_string())
                        }));
                    }
                }
                Act::GenSync => {
                    let bookie = bookie.clone();
                    names.push("generate-sync".into());
                    tasks.push(tokio::spawn(async move {
                        for _ in 0..yields {
                            tokio::task::yield_now().await;
                        }
                        let _ = generate_sync(&bookie, actor).await;
                        Ok(())
                    }));
                }
                Act::Serve => {
                    let mut frames: Vec<SyncRequestV1> = vec![];
                    let mut heads: Vec<_> = state.heads.iter().map(|(a, h)| (*a, *h)).collect();
                    heads.sort();
                    for (a, h) in heads {
                        if h.0 >= 1 {
                            frames.push(vec![(a, vec![SyncNeedV1::Full { versions: CrsqlDbVersion(1)..=h }])]);
                        }
                    }
                    let pool = agent.pool().clone();
                    let bookie = bookie.clone();
                    names.push("serve-sync".into());
                    tasks.push(tokio::spawn(async move {
                        for _ in 0..yields {
                            tokio::task::yield_now().await;
                        }
                        serve_everything(pool, bookie, frames).await.map(|_| ())
                    }));
                }
                Act::Clear => {
                    let triggers = std::mem::take(&mut self.subject.clear_backlog);
                    if triggers.is_empty() {
                        continue;
                    }
                    let (tx, rx) = klukai_types::channel::bounded(triggers.len() + 1, "sim_clear");
                    let h = tokio::spawn(klukai_agent::agent::util::clear_buffered_meta_loop(agent.clone(), rx));
                    let before = verif::pending_total();
                    names.push(format!("clear-buffer({})", triggers.len()));
                    tasks.push(tokio::spawn(async move {
                        for _ in 0..yields {
                            tokio::task::yield_now().await;
                        }
                        for t in triggers {
                            tx.send(t).await.map_err(|_| "clear loop gone".to_string())?;
                        }
                        // the passes themselves are detached tasks; the group's quiescence waits for them
                        let t0 = Instant::now();
                        while verif::pending_total() == before && t0.elapsed() < Duration::from_secs(2) {
                            tokio::time::sleep(Duration::from_micros(200)).await;
                        }
                        drop(tx);
                        Ok(())
                    }));
                    clear_loops.push(h);
                }
            }
        }
        self.stats.fault("concurrent-group");
        self.stats.probe_n("t6.concurrent-activities", tasks.len() as u64);
        let t0 = Instant::now();
        let mut errors = vec![];
        for (i, mut h) in tasks.into_iter().enumerate() {
            let left = Duration::from_secs(150).saturating_sub(t0.elapsed());
            match tokio::time::timeout(left, &mut h).await {
                Ok(Ok(Ok(()))) => {}
                Ok(Ok(Err(e))) => errors.push(format!("{}: {e}", names[i])),
                Ok(Err(e)) => {
                    return Ok(Err(vio("concurrent-activity-panicked", json!({"activity": names[i], "error": e.to_string(), "group": names}))));
                }
                Err(_) => {
                    return Ok(Err(vio(
                        "concurrent-activities-never-finished",
                        json!({"stuck": names[i], "group": names, "waited_seconds": t0.elapsed().as_secs()}),
                    )));
                }
            }
        }
        for e in errors {
            // an activity that gives up with an error has completed; counted, not judged
            self.stats.probe(&format!("t6.activity-error {}", e.split(':').next().unwrap_or("")));
            if std::env::var_os("VERIF_TRACE").is_some() {
                eprintln!("activity error: {e}");
            }
        }
        if let Err(e) = self.subject.quiesce().await {
            return Ok(Err(vio("concurrent-activities-never-finished", json!({"group": names, "note": format!("detached work never settled: {e}")}))));
        }
        for h in clear_loops {
            h.abort();
        }
        let _ = std::mem::take(&mut self.subject.outbox);
        Ok(Ok(()))
    }

    async fn finish(&mut self) -> R<Result<(), Violation>> {
        // everything once more, one version at a time, then every background apply
        let now = Instant::now();
        for c in self.all_chunks.clone() {
            let r = self.subject.deliver(vec![(c, ChangeSource::Sync)]).await?;
            if let Err(e) = r {
                return Ok(Err(vio("serial-apply-failed-after-concurrent-activities", json!({"error": e}))));
            }
        }
        let _ = now;
        for _ in 0..4 {
            let backlog = std::mem::take(&mut self.subject.apply_backlog);
            if backlog.is_empty() {
                break;
            }
            for (a, v) in backlog {
                if let Err(e) = self.subject.apply(a, v).await? {
                    return Ok(Err(vio("serial-apply-failed-after-concurrent-activities", json!({"error": e}))));
                }
            }
        }
        self.stats.oracle_checks += 1;
        let dir = self.subject.dir.clone();
        let shadow = Shadow::create(&dir.join("shadow.db"), seeded_actor(0, 7), SCHEMA_T1, TABLES_T1)?;
        for ch in self.reference.iter() {
            shadow.merge(ch)?;
        }
        let conn = self.subject.agent.pool().read().await.map_err(|e| SimError::Harness(e.to_string()))?;
        let head: u64 = conn.query_row("SELECT COALESCE(MAX(db_version), 0) FROM crsql_changes WHERE site_id = crsql_site_id()", [], |r| r.get(0))?;
        for v in 1..=head {
            shadow.merge(&read_version_changes(&conn, self.subject.actor, v)?)?;
        }
        let t_node = dump_tables(&conn, TABLES_T1)?;
        let t_ref = dump_tables(&shadow.conn, TABLES_T1)?;
        if t_node != t_ref {
            return Ok(Err(vio("tables-differ-from-merge-after-concurrent-activities", json!({"diff(node,reference)": first_diff(&t_node, &t_ref)}))));
        }
        Ok(Ok(()))
    }
}

pub async fn run_events(seed: u64, events: &[Ev], base: &Path, tag: &str) -> R<RunOutcome> {
    let dir = base.join(format!("t6-{}-{seed:016x}-{tag}", std::process::id()));
    let _ = std::fs::remove_dir_all(&dir);
    std::fs::create_dir_all(&dir)?;
    verif::gates_clear();
    verif::lock_trace_start();
    let mut knobs = Knobs::default();
    let mut r = Rng::new(seed).fork("t6-knobs");
    knobs.apply_queue_len = r.range(1, 20) as usize;
    let subject = Node::boot(2, dir.join("n2"), seeded_actor(seed, 2), knobs).await?;
    let mut origins = vec![];
    for i in 0..2 {
        origins.push(Node::boot(i, dir.join(format!("n{i}")), seeded_actor(seed, i), Knobs::default()).await?);
    }
    for n in origins.iter().chain(std::iter::once(&subject)) {
        let (st, resp) = n.schema(SCHEMA_T1.iter().map(|s| s.to_string()).collect()).await;
        if st != 200 {
            return Err(SimError::Harness(format!("schema: {:?}", resp.results)));
        }
    }
    let mut w = World { subject, origins, pending: vec![], all_chunks: vec![], reference: vec![], stats: Stats::default(), log: vec![] };
    let mut violation = None;
    let mut done = vec![];
    for (i, ev) in events.iter().enumerate() {
        done.push(ev.clone());
        w.stats.steps += 1;
        let r = match ev {
            Ev::Write { origin, stmts } => {
                w.stats.ev("Write");
                let o = *origin % w.origins.len();
                let api = stmts.iter().map(|s| stmt(&s.sql, s.params.iter().map(|p| p.to_param()).collect())).collect();
                let (status, resp) = w.origins[o].write(api, None).await?;
                let outbox = std::mem::take(&mut w.origins[o].outbox);
                if status == 200 {
                    if let Some(v) = resp.version {
                        let conn = w.origins[o].agent.pool().read().await.map_err(|e| SimError::Harness(e.to_string()))?;
                        w.reference.push(read_version_changes(&conn, w.origins[o].actor, v)?);
                        w.log.push(format!("write o{o} v{v} chunks={}", outbox.len()));
                        for (_, c) in outbox {
                            w.pending.push(c.clone());
                            w.all_chunks.push(c);
                        }
                    }
                }
                Ok(())
            }
            Ev::Group { acts, stagger } => {
                w.stats.ev("Group");
                w.log.push(format!("group of {}", acts.len()));
                w.group(acts, stagger).await?
            }
        };
        if let Err(mut v) = r {
            v.step = i + 1;
            violation = Some(v);
            break;
        }
    }
    if violation.is_none() {
        if let Err(mut v) = w.finish().await? {
            v.step = done.len();
            violation = Some(v);
        }
    }
    let mut stats = w.stats.clone();
    {
        let trace = verif::lock_trace_take();
        let (rep, v) = crate::locks::analyze(&trace);
        stats.probe_n("locks.acquisitions", rep.acquisitions);
        for ((a, b), n) in rep.class_edges.iter() {
            stats.probe_n(&format!("locks.holds {a} -> requests {b}"), *n);
        }
        if violation.is_none() {
            if let Some(mut v) = v {
                v.step = done.len();
                violation = Some(v);
            }
        }
    }
    let mut sh = 0xcbf2_9ce4_8422_2325;
    for e in &done {
        let s = match e {
            Ev::Write { origin, stmts } => format!("W{origin}{}", stmts.len().min(3)),
            Ev::Group { acts, .. } => format!(
                "G{}",
                acts.iter()
                    .map(|a| match a {
                        Act::LocalWrite { .. } => 'w',
                        Act::Deliver { .. } => 'd',
                        Act::Apply => 'a',
                        Act::GenSync => 'g',
                        Act::Serve => 's',
                        Act::Clear => 'c',
                    })
                    .collect::<String>()
            ),
        };
        fnv(&mut sh, s.as_bytes());
    }
    stats.schedule_hash = sh;
    stats.nontrivial = stats.faults.get("concurrent-group").copied().unwrap_or(0) > 0;
    stats.converged = violation.is_none();
    let mut h = 0xcbf2_9ce4_8422_2325;
    for l in &w.log {
        fnv(&mut h, l.as_bytes());
    }
    for n in w.origins.iter().chain(std::iter::once(&w.subject)) {
        n.trip().await;
    }
    drop(w);
    let _ = std::fs::remove_dir_all(&dir);
    Ok(RunOutcome {
        seed,
        tier: "t6".into(),
        config: json!({}),
        events: done.iter().map(|e| serde_json::to_value(e).unwrap()).collect(),
        violation,
        known: vec![],
        stats,
        log_digest: h,
    })
}
