//! Backup / restore tier (C19).
//!
//! Part A (authorship): real nodes produce a source database holding changes authored by the
//! source and by other actors (with deletions, re-creations, large transactions), the real
//! `corrosion backup` and `corrosion restore` commands (the built binary, run as a child
//! process on the simulated nodes' files) move it to a destination, and the per-cell CRDT
//! metadata with author *site ids* (not ordinals) of source, backup and restored database are
//! compared; then a real node is started on the restored database and must interoperate.
//!
//! Part B (atomic replacement under readers) lives in `restore_live`: the real
//! `sqlite3_restore::restore` runs in this process, held at guarded gate points, while a
//! reader in *another process* (POSIX locks do not exclude within a process) is stepped by
//! the simulator.

use std::{
    collections::BTreeMap,
    io::{BufRead, BufReader, Write},
    path::{Path, PathBuf},
    process::{Command, Stdio},
};

use klukai_types::{
    actor::ActorId,
    broadcast::{ChangeSource, ChangeV1},
    verif,
};
use rusqlite::{Connection, OpenFlags, types::Value};
use serde::{Deserialize, Serialize};
use serde_json::json;

use crate::{
    SimError,
    model::{SCHEMA_T1, Stmt, TABLES_T1, dump_tables, first_diff, render},
    node::{Knobs, Node, R, changeset_msgs, seeded_actor, stmt},
    rng::Rng,
    t1::{RunCfg, gen_::Gen},
    trace::{RunOutcome, Stats, Violation, fnv},
};

#[derive(Serialize, Deserialize, Clone, Debug, PartialEq)]
#[serde(tag = "op")]
pub enum Ev {
    Write { node: usize, stmts: Vec<Stmt> },
    /// everything `from` announced so far is delivered to `to` (and applied)
    Exchange { from: usize, to: usize },
    /// a subscription on the source (node-local state that must not travel)
    Subscribe { node: usize },
    /// `corrosion backup` of node 0. live = the agent keeps running; rollback = the (stopped)
    /// source is switched to a rollback journal first
    Backup { live: bool, rollback: bool },
    /// transactions committed on the source after the backup was taken
    /// `corrosion restore`: dst 0 = node 1's database (existing, other actor), 1 = absent file,
    /// 2 = a node that never wrote (existing, empty tables); flag 0 = none, 1 = --self-actor-id,
    /// 2 = --actor-id <seeded>
    Restore { dst: u8, flag: u8 },
    /// Part B: restore `new_rows` generation-2 rows over a live destination holding
    /// `old_rows` generation-1 rows; readers are stepped at every gate
    RestoreLive {
        wal: bool,
        old_rows: u32,
        new_rows: u32,
        reads_per_gate: u8,
        long_lived: bool,
        /// the reader process is inside a read transaction (first half of the table read) when
        /// the restore starts and finishes it (second half) afterwards
        #[serde(default)]
        txn_reader: bool,
    },
}

fn vio(class: &str, detail: serde_json::Value) -> Violation {
    Violation::new("C19", class, detail)
}

pub fn cli_path() -> PathBuf {
    PathBuf::from(std::env::var("VERIF_CLI").unwrap_or_else(|_| "/verif/target/cli/debug/corrosion".into()))
}

pub fn generate(seed: u64) -> Vec<Ev> {
    let mut r = Rng::new(seed).fork("t19");
    if r.chance(0.35) {
        // Part B only
        return vec![Ev::RestoreLive {
            wal: r.chance(0.6),
            old_rows: *r.pick(&[0u32, 1, 50, 400, 3000]),
            new_rows: *r.pick(&[1u32, 40, 500, 2500]),
            reads_per_gate: if r.chance(0.8) { 1 } else { 2 },
            long_lived: r.chance(0.6),
            txn_reader: r.chance(0.4),
        }];
    }
    let mut g = Gen::new(seed);
    let wl = RunCfg {
        nodes: 3, keys: r.range(2, 5), max_events: 0, max_writes: 0, w_write: 0, w_deliver: 0, w_apply: 0, w_clear: 0, w_sync: 0,
        w_recut: 0, w_drop: 0, w_crash: 0, w_restart: 0, p_large: if r.chance(0.25) { 0.15 } else { 0.0 }, p_fail_stmt: 0.0, p_dup: 0.0, max_rounds: 0, focus: "C19".into(),
    };
    let mut evs = vec![];
    let steps = r.range(3, 18);
    for _ in 0..steps {
        match r.weighted(&[60, 35, 5]) {
            0 => {
                let n = r.usize_below(3);
                evs.push(Ev::Write { node: n, stmts: g.gen_write(&wl, n) });
            }
            1 => {
                let from = r.usize_below(3);
                let to = (from + 1 + r.usize_below(2)) % 3;
                evs.push(Ev::Exchange { from, to });
            }
            _ => evs.push(Ev::Subscribe { node: 0 }),
        }
    }
    // make sure the source holds foreign changes most of the time
    if r.chance(0.8) {
        evs.push(Ev::Exchange { from: 1, to: 0 });
    }
    if r.chance(0.5) {
        evs.push(Ev::Exchange { from: 2, to: 0 });
    }
    if r.chance(0.5) {
        evs.push(Ev::Subscribe { node: 0 });
    }
    let live = r.chance(0.5);
    evs.push(Ev::Backup { live, rollback: !live && r.chance(0.5) });
    evs.push(Ev::Restore { dst: r.below(3) as u8, flag: r.below(3) as u8 });
    evs
}

/// Per-cell CRDT metadata with the author's *site id* (ordinals resolved), plus version table.
fn authorship(path: &Path) -> R<Vec<String>> {
    let conn = Connection::open_with_flags(path, OpenFlags::SQLITE_OPEN_READ_ONLY)?;
    conn.busy_timeout(std::time::Duration::from_secs(10))?;
    let mut sites: BTreeMap<i64, String> = BTreeMap::new();
    {
        let mut st = conn.prepare("SELECT ordinal, hex(site_id) FROM crsql_site_id")?;
        let mut rows = st.query([])?;
        while let Some(r) = rows.next()? {
            sites.insert(r.get(0)?, r.get(1)?);
        }
    }
    let mut out = vec![];
    for (t, pk) in TABLES_T1 {
        let pkcols: Vec<String> = pk.split(',').map(|c| format!("p.\"{}\"", c.trim())).collect();
        let sql = format!(
            "SELECT {}, c.col_name, c.col_version, c.db_version, c.seq, c.site_id FROM \"{t}__crsql_clock\" c JOIN \"{t}__crsql_pks\" p ON p.__crsql_key = c.key",
            pkcols.join(", ")
        );
        let mut st = conn.prepare(&sql)?;
        let n = st.column_count();
        let mut rows = st.query([])?;
        while let Some(r) = rows.next()? {
            let mut cells = vec![t.to_string()];
            for i in 0..n - 1 {
                cells.push(render(&r.get::<_, Value>(i)?));
            }
            let ord: i64 = r.get(n - 1)?;
            cells.push(match sites.get(&ord) {
                Some(s) => s.clone(),
                None => format!("UNKNOWN-ORDINAL-{ord}"),
            });
            out.push(cells.join("|"));
        }
    }
    {
        let mut st = conn.prepare("SELECT hex(site_id), db_version FROM crsql_db_versions")?;
        let mut rows = st.query([])?;
        while let Some(r) = rows.next()? {
            out.push(format!("db_versions|{}|{}", r.get::<_, String>(0)?, r.get::<_, i64>(1)?));
        }
    }
    out.sort();
    Ok(out)
}

fn self_site(path: &Path) -> R<Option<String>> {
    use rusqlite::OptionalExtension;
    let conn = Connection::open_with_flags(path, OpenFlags::SQLITE_OPEN_READ_ONLY)?;
    Ok(conn.query_row("SELECT hex(site_id) FROM crsql_site_id WHERE ordinal = 0", [], |r| r.get(0)).optional()?)
}

fn count(path: &Path, table: &str) -> R<Option<i64>> {
    let conn = Connection::open_with_flags(path, OpenFlags::SQLITE_OPEN_READ_ONLY)?;
    Ok(conn.query_row(&format!("SELECT count(*) FROM {table}"), [], |r| r.get(0)).ok())
}

fn write_cli_config(dir: &Path) -> R<PathBuf> {
    let p = dir.join("cli.toml");
    std::fs::write(
        &p,
        format!(
            "[db]\npath = \"{}\"\n\n[api]\naddr = \"127.0.0.1:0\"\n\n[gossip]\naddr = \"127.0.0.1:0\"\n\n[admin]\npath = \"{}\"\n",
            dir.join("corrosion.db").display(),
            dir.join("admin-cli.sock").display()
        ),
    )?;
    Ok(p)
}

fn run_cli(args: &[&str]) -> R<(bool, String)> {
    let out = Command::new(cli_path())
        .args(args)
        .env("RUST_LOG", "warn")
        .stdin(Stdio::null())
        .output()
        .map_err(|e| SimError::Harness(format!("cannot run {}: {e}", cli_path().display())))?;
    let text = format!("{}{}", String::from_utf8_lossy(&out.stdout), String::from_utf8_lossy(&out.stderr));
    Ok((out.status.success(), text))
}

struct World {
    nodes: Vec<Option<Node>>,
    dirs: Vec<PathBuf>,
    actors: Vec<ActorId>,
    /// announced by node i, not yet handed to node j: cursor per (i, j)
    announced: Vec<Vec<ChangeV1>>,
    cursor: BTreeMap<(usize, usize), usize>,
    stats: Stats,
    log: Vec<String>,
    dir: PathBuf,
    seed: u64,
}

impl World {
    async fn deliver_all(&mut self, to: usize, msgs: Vec<ChangeV1>, src: ChangeSource) -> R<Result<(), Violation>> {
        let n = self.nodes[to].as_mut().unwrap();
        if !msgs.is_empty() {
            let r = n.deliver(msgs.into_iter().map(|c| (c, src)).collect()).await?;
            if let Err(e) = r {
                return Ok(Err(vio("deliver-failed", json!({"error": e}))));
            }
        }
        for _ in 0..4 {
            let backlog = std::mem::take(&mut n.apply_backlog);
            if backlog.is_empty() {
                break;
            }
            for (a, v) in backlog {
                if let Err(e) = n.apply(a, v).await? {
                    return Ok(Err(vio("apply-failed", json!({"error": e}))));
                }
            }
        }
        for (a, r) in std::mem::take(&mut n.clear_backlog) {
            n.clear_buf(a, r).await?;
        }
        Ok(Ok(()))
    }

    /// one production sync session: `to` asks `from` for what it lacks
    async fn sync(&mut self, from: usize, to: usize) -> R<Result<usize, Violation>> {
        let ours = self.nodes[to].as_ref().unwrap().sync_state().await;
        let theirs = self.nodes[from].as_ref().unwrap().sync_state().await;
        let needs = ours.compute_available_needs(&theirs);
        let mut frames = vec![];
        let mut keys: Vec<_> = needs.keys().copied().collect();
        keys.sort();
        let mut n_needs = 0;
        for a in keys {
            n_needs += needs[&a].len();
            frames.push(vec![(a, needs[&a].clone())]);
        }
        if frames.is_empty() {
            return Ok(Ok(0));
        }
        let (msgs, err) = self.nodes[from].as_ref().unwrap().serve(frames).await?;
        if let Some(e) = err {
            return Ok(Err(vio("sync-serve-failed", json!({"error": e}))));
        }
        let answers = changeset_msgs(msgs);
        if let Err(v) = self.deliver_all(to, answers, ChangeSource::Sync).await? {
            return Ok(Err(v));
        }
        Ok(Ok(n_needs))
    }
}

pub async fn run_events(seed: u64, events: &[Ev], base: &Path, tag: &str) -> R<RunOutcome> {
    let dir = base.join(format!("t19-{}-{seed:016x}-{tag}", std::process::id()));
    let _ = std::fs::remove_dir_all(&dir);
    std::fs::create_dir_all(&dir)?;
    let mut stats = Stats::default();
    let mut violation: Option<Violation> = None;
    let mut done: Vec<Ev> = vec![];
    let mut log: Vec<String> = vec![];
    let part_b = events.iter().any(|e| matches!(e, Ev::RestoreLive { .. }));
    if part_b {
        for (i, ev) in events.iter().enumerate() {
            done.push(ev.clone());
            if let Ev::RestoreLive { wal, old_rows, new_rows, reads_per_gate, long_lived, txn_reader } = ev {
                stats.ev("RestoreLive");
                stats.steps += 1;
                if let Err(mut v) = restore_live(&dir, *wal, *old_rows, *new_rows, *reads_per_gate, *long_lived, *txn_reader, &mut stats, &mut log).await? {
                    v.step = i + 1;
                    violation = Some(v);
                    break;
                }
            }
        }
    } else {
        let mut w = World {
            nodes: vec![],
            dirs: vec![],
            actors: vec![],
            announced: vec![vec![], vec![], vec![]],
            cursor: BTreeMap::new(),
            stats: Stats::default(),
            log: vec![],
            dir: dir.clone(),
            seed,
        };
        for i in 0..3 {
            let a = seeded_actor(seed, i);
            let d = dir.join(format!("n{i}"));
            let n = Node::boot(i, d.clone(), a, Knobs::default()).await?;
            let (st, resp) = n.schema(SCHEMA_T1.iter().map(|x| x.to_string()).collect()).await;
            if st != 200 {
                return Err(SimError::Harness(format!("schema: {:?}", resp.results)));
            }
            w.nodes.push(Some(n));
            w.dirs.push(d);
            w.actors.push(a);
        }
        for (i, ev) in events.iter().enumerate() {
            done.push(ev.clone());
            w.stats.steps += 1;
            let r = exec_a(&mut w, ev).await?;
            if let Err(mut v) = r {
                v.step = i + 1;
                violation = Some(v);
                break;
            }
        }
        for n in w.nodes.iter().flatten() {
            n.trip().await;
        }
        stats = w.stats.clone();
        log = w.log.clone();
        let _ = (&w.dir, w.seed);
    }
    let mut sh = 0xcbf2_9ce4_8422_2325;
    for e in &done {
        let s = match e {
            Ev::Write { node, stmts } => format!("W{node}{}", stmts.len().min(3)),
            Ev::Exchange { from, to } => format!("X{from}{to}"),
            Ev::Subscribe { .. } => "S".into(),
            Ev::Backup { live, rollback } => format!("B{}{}", *live as u8, *rollback as u8),
            Ev::Restore { dst, flag } => format!("R{dst}{flag}"),
            Ev::RestoreLive { wal, old_rows, new_rows, long_lived, reads_per_gate, txn_reader } => format!("L{}{old_rows}-{new_rows}{}{reads_per_gate}{}", *wal as u8, *long_lived as u8, *txn_reader as u8),
        };
        fnv(&mut sh, s.as_bytes());
    }
    stats.schedule_hash = sh;
    stats.nontrivial = true;
    stats.converged = violation.is_none();
    let mut h = 0xcbf2_9ce4_8422_2325;
    for l in &log {
        fnv(&mut h, l.as_bytes());
    }
    if std::env::var_os("VERIF_KEEPDIR").is_some() {
        eprintln!("run directory kept: {}", dir.display());
    } else {
        let _ = std::fs::remove_dir_all(&dir);
    }
    Ok(RunOutcome {
        seed,
        tier: "t19".into(),
        config: json!({}),
        events: done.iter().map(|e| serde_json::to_value(e).unwrap()).collect(),
        violation,
        known: vec![],
        stats,
        log_digest: h,
    })
}

async fn exec_a(w: &mut World, ev: &Ev) -> R<Result<(), Violation>> {
    match ev {
        Ev::Write { node, stmts } => {
            w.stats.ev("Write");
            let Some(n) = w.nodes[*node].as_mut() else { return Ok(Ok(())) };
            let api = stmts.iter().map(|s| stmt(&s.sql, s.params.iter().map(|p| p.to_param()).collect())).collect();
            let (status, resp) = n.write(api, None).await?;
            for (_, c) in std::mem::take(&mut n.outbox) {
                w.announced[*node].push(c);
            }
            w.log.push(format!("write n{node}: {status} {:?}", resp.version));
            Ok(Ok(()))
        }
        Ev::Exchange { from, to } => {
            w.stats.ev("Exchange");
            if w.nodes[*from].is_none() || w.nodes[*to].is_none() || from == to {
                return Ok(Ok(()));
            }
            let cur = w.cursor.get(&(*from, *to)).copied().unwrap_or(0);
            let msgs: Vec<ChangeV1> = w.announced[*from][cur..].to_vec();
            w.cursor.insert((*from, *to), w.announced[*from].len());
            w.log.push(format!("exchange n{from} -> n{to}: {} messages", msgs.len()));
            w.deliver_all(*to, msgs, ChangeSource::Broadcast).await
        }
        Ev::Subscribe { node } => {
            w.stats.ev("Subscribe");
            let Some(n) = w.nodes[*node].as_ref() else { return Ok(Ok(())) };
            let params = serde_json::from_value(json!({})).map_err(|e| SimError::Harness(e.to_string()))?;
            let resp = klukai_agent::api::public::pubsub::api_v1_subs(
                axum::Extension(n.agent.clone()),
                axum::Extension(n.subs_cache.clone()),
                axum::Extension(n.tripwire.clone()),
                axum::extract::Query(params),
                axum::Json(klukai_types::api::Statement::Simple("SELECT id, a FROM t1".into())),
            )
            .await;
            w.log.push(format!("subscribe: {}", resp.status()));
            drop(resp);
            tokio::time::sleep(std::time::Duration::from_millis(50)).await;
            Ok(Ok(()))
        }
        Ev::Backup { live, rollback } => {
            w.stats.ev("Backup");
            // node-local state that must not travel: a membership row
            {
                let n = w.nodes[0].as_ref().unwrap();
                let conn = n.agent.pool().write_priority().await.map_err(|e| SimError::Harness(e.to_string()))?;
                conn.execute(
                    "INSERT OR REPLACE INTO __corro_members (actor_id, address, foca_state) VALUES (?, '10.9.9.9:1234', '{}')",
                    [w.actors[1]],
                )?;
            }
            if !*live {
                w.stats.fault("source-stopped");
                let n = w.nodes[0].take().unwrap();
                n.shutdown_graceful().await?;
                if *rollback {
                    w.stats.fault("source-in-rollback-journal-mode");
                    // (on a copy of the stopped node's directory: connections of the stopped
                    // incarnation may linger in this process and would block the mode switch)
                    let copy = w.dir.join("n0-rollback");
                    // connections of the stopped incarnation may still be closing (the last one
                    // checkpoints and removes the WAL): copy until the directory held still
                    let sig = |d: &Path| -> Vec<(String, u64, Option<std::time::SystemTime>)> {
                        let mut v: Vec<_> = std::fs::read_dir(d)
                            .map(|rd| {
                                rd.filter_map(|e| e.ok())
                                    .filter_map(|e| e.metadata().ok().map(|m| (e.file_name().to_string_lossy().to_string(), m.len(), m.modified().ok())))
                                    .collect()
                            })
                            .unwrap_or_default();
                        v.sort();
                        v
                    };
                    for attempt in 0..20 {
                        let before = sig(&w.dirs[0]);
                        let _ = std::fs::remove_dir_all(&copy);
                        crate::node::snapshot_dir(&w.dirs[0], &copy)?;
                        if sig(&w.dirs[0]) == before {
                            break;
                        }
                        if attempt == 19 {
                            return Err(SimError::Harness("source directory keeps changing after the node was stopped".into()));
                        }
                        tokio::time::sleep(std::time::Duration::from_millis(20)).await;
                    }
                    w.dirs[0] = copy;
                    let conn = Connection::open(w.dirs[0].join("corrosion.db"))?;
                    conn.busy_timeout(std::time::Duration::from_secs(10))?;
                    let mode: String = conn.query_row("PRAGMA journal_mode = DELETE", [], |r| r.get(0))?;
                    w.log.push(format!("source journal mode: {mode}"));
                    if mode != "delete" {
                        return Err(SimError::Harness(format!("could not switch the source to a rollback journal: {mode}")));
                    }
                }
            } else {
                w.stats.fault("source-live");
            }
            let cfg = write_cli_config(&w.dirs[0])?;
            let backup = w.dir.join("backup.db");
            let (ok, out) = run_cli(&["-c", cfg.to_str().unwrap(), "backup", backup.to_str().unwrap()])?;
            w.log.push(format!("backup: ok={ok}"));
            if !ok {
                return Ok(Err(vio("backup-command-failed", json!({"output": out.chars().take(600).collect::<String>()}))));
            }
            w.stats.oracle_checks += 1;
            let src = w.dirs[0].join("corrosion.db");
            let a_src = authorship(&src)?;
            let a_bak = authorship(&backup)?;
            if a_src != a_bak {
                return Ok(Err(vio("backup-crdt-metadata-or-authorship-differs-from-source", json!({"diff(source,backup)": first_diff(&a_src, &a_bak)}))));
            }
            let t_src = dump_tables(&Connection::open_with_flags(&src, OpenFlags::SQLITE_OPEN_READ_ONLY)?, TABLES_T1)?;
            let t_bak = dump_tables(&Connection::open_with_flags(&backup, OpenFlags::SQLITE_OPEN_READ_ONLY)?, TABLES_T1)?;
            if t_src != t_bak {
                return Ok(Err(vio("backup-rows-differ-from-source", json!({"diff(source,backup)": first_diff(&t_src, &t_bak)}))));
            }
            if let Some(s) = self_site(&backup)? {
                return Ok(Err(vio("backup-still-has-a-self-site-id", json!({"site": s}))));
            }
            if count(&backup, "__corro_members")?.unwrap_or(0) != 0 {
                return Ok(Err(vio("backup-contains-membership-state", json!({"rows": count(&backup, "__corro_members")?}))));
            }
            if count(&backup, "__corro_subs")?.unwrap_or(0) != 0 {
                return Ok(Err(vio("backup-contains-subscription-state", json!({"rows": count(&backup, "__corro_subs")?}))));
            }
            w.stats.probe_n("c19.cells-compared", a_src.len() as u64);
            let foreign = a_src.iter().filter(|l| !l.ends_with(&hex(&w.actors[0])) && !l.starts_with("db_versions")).count();
            if foreign > 0 {
                w.stats.probe("c19.source-held-foreign-changes");
            }
            Ok(Ok(()))
        }
        Ev::Restore { dst, flag } => {
            w.stats.ev("Restore");
            let backup = w.dir.join("backup.db");
            if !backup.exists() {
                return Ok(Ok(()));
            }
            let src = w.dirs[0].join("corrosion.db");
            let a_src = authorship(&src)?;
            let t_src = dump_tables(&Connection::open_with_flags(&src, OpenFlags::SQLITE_OPEN_READ_ONLY)?, TABLES_T1)?;
            // destination
            let (dst_dir, dst_actor_before): (PathBuf, Option<ActorId>) = match dst % 3 {
                0 => {
                    w.stats.fault("destination-existing-other-actor");
                    let n = w.nodes[1].take().unwrap();
                    n.shutdown_graceful().await?;
                    (w.dirs[1].clone(), Some(w.actors[1]))
                }
                1 => {
                    w.stats.fault("destination-absent");
                    let d = w.dir.join("fresh");
                    std::fs::create_dir_all(&d)?;
                    (d, None)
                }
                _ => {
                    w.stats.fault("destination-existing-empty");
                    let a = seeded_actor(w.seed, 7);
                    let d = w.dir.join("empty");
                    let n = Node::boot(7, d.clone(), a, Knobs::default()).await?;
                    let (st, _) = n.schema(SCHEMA_T1.iter().map(|x| x.to_string()).collect()).await;
                    if st != 200 {
                        return Err(SimError::Harness("schema on empty destination".into()));
                    }
                    n.shutdown_graceful().await?;
                    (d, Some(a))
                }
            };
            // a stale subscription directory at the destination must go
            let subs_dir = dst_dir.join("subscriptions");
            std::fs::create_dir_all(subs_dir.join("0123456789abcdef0123456789abcdef"))?;
            std::fs::write(subs_dir.join("0123456789abcdef0123456789abcdef").join("sub.sqlite"), b"stale")?;
            let cfg = write_cli_config(&dst_dir)?;
            let explicit = seeded_actor(w.seed, 11);
            let explicit_s = uuid::Uuid::from_bytes(explicit.to_bytes()).to_string();
            let mut args: Vec<&str> = vec!["-c", cfg.to_str().unwrap(), "restore", backup.to_str().unwrap()];
            let mut flag = flag % 3;
            if flag == 1 && dst_actor_before.is_none() {
                // --self-actor-id needs an existing destination database
                flag = 0;
            }
            let expected_self: Option<ActorId> = match flag {
                1 => {
                    w.stats.fault("restore --self-actor-id");
                    args.push("--self-actor-id");
                    dst_actor_before
                }
                2 => {
                    w.stats.fault("restore --actor-id");
                    args.push("--actor-id");
                    args.push(&explicit_s);
                    Some(explicit)
                }
                _ => {
                    w.stats.fault("restore (new identity)");
                    None
                }
            };
            let (ok, out) = run_cli(&args)?;
            w.log.push(format!("restore dst={dst} flag={flag}: ok={ok}"));
            if !ok {
                return Ok(Err(vio("restore-command-failed", json!({"dst": dst % 3, "flag": flag, "output": out.chars().take(600).collect::<String>()}))));
            }
            w.stats.oracle_checks += 1;
            let restored = dst_dir.join("corrosion.db");
            let a_res = authorship(&restored)?;
            if a_src != a_res {
                return Ok(Err(vio(
                    "restored-crdt-metadata-or-authorship-differs-from-source",
                    json!({"dst": dst % 3, "flag": flag, "diff(source,restored)": first_diff(&a_src, &a_res)}),
                )));
            }
            let t_res = dump_tables(&Connection::open_with_flags(&restored, OpenFlags::SQLITE_OPEN_READ_ONLY)?, TABLES_T1)?;
            if t_src != t_res {
                return Ok(Err(vio("restored-rows-differ-from-source", json!({"diff(source,restored)": first_diff(&t_src, &t_res)}))));
            }
            match (&expected_self, self_site(&restored)?) {
                (Some(a), got) => {
                    if got.as_deref() != Some(hex(a).as_str()) {
                        return Ok(Err(vio("restored-database-has-wrong-self-id", json!({"expected": hex(a), "got": got, "flag": flag}))));
                    }
                }
                (None, Some(s)) => {
                    return Ok(Err(vio("restored-database-has-unexpected-self-id", json!({"got": s}))));
                }
                (None, None) => {}
            }
            if subs_dir.exists() {
                return Ok(Err(vio("destination-subscriptions-not-removed", json!({}))));
            }
            if count(&restored, "__corro_members")?.unwrap_or(0) != 0 {
                return Ok(Err(vio("restored-database-contains-membership-state", json!({}))));
            }
            // ---- a real node on the restored database
            let boot_actor = match expected_self {
                Some(a) => a,
                None => {
                    // no self site id in the file: the extension creates one when the database is
                    // first opened (a new identity); read it so that the node can be booted on it
                    let c = klukai_types::sqlite::CrConn::init(Connection::open(&restored)?)?;
                    let a: ActorId = c.query_row("SELECT crsql_site_id()", [], |r| r.get(0))?;
                    drop(c);
                    a
                }
            };
            let mut rn = Node::boot(8, dst_dir.clone(), boot_actor, Knobs::default()).await?;
            let me = rn.agent.actor_id();
            if let Some(a) = expected_self {
                if me != a {
                    return Ok(Err(vio("node-on-restored-database-has-wrong-actor-id", json!({"expected": hex(&a), "got": hex(&me)}))));
                }
            } else if w.actors.contains(&me) {
                return Ok(Err(vio("node-on-restored-database-took-over-an-existing-actor-id", json!({"got": hex(&me)}))));
            }
            // it must know exactly what the source knows (per author)
            let st = rn.sync_state().await;
            let src_heads: BTreeMap<String, i64> = a_src
                .iter()
                .filter(|l| l.starts_with("db_versions|"))
                .map(|l| {
                    let p: Vec<&str> = l.split('|').collect();
                    (p[1].to_string(), p[2].parse().unwrap_or(0))
                })
                .collect();
            for (site, head) in src_heads.iter() {
                let got = st.heads.iter().find(|(a, _)| hex(a) == *site).map(|(_, v)| v.0 as i64).unwrap_or(0);
                if got != *head {
                    return Ok(Err(vio("node-on-restored-database-advertises-wrong-head", json!({"author": site, "source_head": head, "advertised": got, "need": st.need.len()}))));
                }
            }
            // a new local transaction gets a fresh version of its own
            let own_before = src_heads.get(&hex(&me)).copied().unwrap_or(0);
            let (status, resp) = rn
                .write(vec![stmt("INSERT INTO t1 (id, a, b) VALUES (777, 'after-restore', 'x') ON CONFLICT (id) DO UPDATE SET a = excluded.a", vec![])], None)
                .await?;
            if status != 200 {
                return Ok(Err(vio("write-on-restored-node-failed", json!({"status": status}))));
            }
            let v = resp.version.unwrap_or(0) as i64;
            if v != own_before + 1 {
                return Ok(Err(vio("restored-node-reused-or-skipped-a-version", json!({"own_head_in_source": own_before, "new_version": v, "flag": flag}))));
            }
            let new_msgs: Vec<ChangeV1> = std::mem::take(&mut rn.outbox).into_iter().map(|(_, c)| c).collect();
            // the source (rebooted if it was stopped) accepts it and both converge
            if w.nodes[0].is_none() {
                let n = Node::boot(0, w.dirs[0].clone(), w.actors[0], Knobs::default()).await?;
                w.nodes[0] = Some(n);
            }
            w.nodes.push(Some(rn));
            let ri = w.nodes.len() - 1;
            if let Err(v) = w.deliver_all(0, new_msgs, ChangeSource::Broadcast).await? {
                return Ok(Err(v));
            }
            for _ in 0..3 {
                let a = match w.sync(0, ri).await? {
                    Ok(n) => n,
                    Err(v) => return Ok(Err(v)),
                };
                let b = match w.sync(ri, 0).await? {
                    Ok(n) => n,
                    Err(v) => return Ok(Err(v)),
                };
                if a + b == 0 {
                    break;
                }
            }
            let t0 = {
                let c = w.nodes[0].as_ref().unwrap().agent.pool().read().await.map_err(|e| SimError::Harness(e.to_string()))?;
                dump_tables(&c, TABLES_T1)?
            };
            let tr = {
                let c = w.nodes[ri].as_ref().unwrap().agent.pool().read().await.map_err(|e| SimError::Harness(e.to_string()))?;
                dump_tables(&c, TABLES_T1)?
            };
            if t0 != tr {
                return Ok(Err(vio("source-and-restored-node-do-not-converge", json!({"diff(source,restored)": first_diff(&t0, &tr)}))));
            }
            w.stats.probe("c19.restored-node-interoperates");
            Ok(Ok(()))
        }
        Ev::RestoreLive { .. } => Ok(Ok(())),
    }
}

fn hex(a: &ActorId) -> String {
    a.to_bytes().iter().map(|b| format!("{b:02X}")).collect()
}

// ---------------------------------------------------------------------------
// Part B

struct Reader {
    child: std::process::Child,
    stdin: std::process::ChildStdin,
    stdout: BufReader<std::process::ChildStdout>,
}

impl Reader {
    fn spawn(db: &Path) -> R<Reader> {
        let exe = std::env::current_exe()?;
        let mut child = Command::new(exe)
            .arg("t19reader")
            .arg(db)
            .stdin(Stdio::piped())
            .stdout(Stdio::piped())
            .stderr(Stdio::null())
            .spawn()?;
        let stdin = child.stdin.take().unwrap();
        let stdout = BufReader::new(child.stdout.take().unwrap());
        Ok(Reader { child, stdin, stdout })
    }

    fn ask(&mut self, cmd: &str) -> R<String> {
        writeln!(self.stdin, "{cmd}")?;
        self.stdin.flush()?;
        let mut line = String::new();
        self.stdout.read_line(&mut line)?;
        if line.is_empty() {
            return Err(SimError::Harness("reader process died".into()));
        }
        Ok(line.trim().to_string())
    }
}

impl Drop for Reader {
    fn drop(&mut self) {
        let _ = writeln!(self.stdin, "quit");
        let _ = self.child.kill();
        let _ = self.child.wait();
    }
}

/// The reader process: `fresh` opens a connection, reads, closes; `long` reads on a connection
/// kept open since before the restore. Answers `ok <count> <min gen> <max gen> <integrity>` or
/// `err <message>`.
pub fn reader_main(db: &str) {
    let stdin = std::io::stdin();
    let mut long: Option<Connection> = None;
    let mut txn: Option<Connection> = None;
    fn read(conn: &Connection) -> Result<String, rusqlite::Error> {
        let (n, lo, hi): (i64, Option<i64>, Option<i64>) = conn.query_row("SELECT count(*), min(gen), max(gen) FROM g", [], |r| Ok((r.get(0)?, r.get(1)?, r.get(2)?)))?;
        let s: i64 = conn.query_row("SELECT COALESCE(sum(length(pad)), 0) FROM g", [], |r| r.get(0))?;
        let ic: String = conn.query_row("PRAGMA quick_check", [], |r| r.get(0))?;
        Ok(format!("ok {n} {} {} {s} {}", lo.unwrap_or(0), hi.unwrap_or(0), ic.replace(' ', "_")))
    }
    for line in stdin.lock().lines() {
        let Ok(line) = line else { break };
        let ans = match line.trim() {
            "quit" => break,
            "open" => match Connection::open_with_flags(db, OpenFlags::SQLITE_OPEN_READ_WRITE) {
                Ok(c) => {
                    let _ = c.busy_timeout(std::time::Duration::from_millis(0));
                    let r = read(&c).unwrap_or_else(|e| format!("err {e}"));
                    long = Some(c);
                    r
                }
                Err(e) => format!("err {e}"),
            },
            cmd if cmd.starts_with("begin ") || cmd.starts_with("finish ") => {
                // a read transaction spanning the restore: first half of the table, later the rest
                let split: i64 = cmd.split(' ').nth(1).and_then(|x| x.parse().ok()).unwrap_or(0);
                if cmd.starts_with("begin ") {
                    match Connection::open_with_flags(db, OpenFlags::SQLITE_OPEN_READ_WRITE) {
                        Ok(c) => {
                            let _ = c.busy_timeout(std::time::Duration::from_millis(0));
                            let r = c.execute_batch("BEGIN").and_then(|_| {
                                c.query_row("SELECT count(*), COALESCE(min(gen), 0), COALESCE(max(gen), 0) FROM g WHERE id < ?", [split], |r| {
                                    Ok(format!("ok {} {} {}", r.get::<_, i64>(0)?, r.get::<_, i64>(1)?, r.get::<_, i64>(2)?))
                                })
                            });
                            txn = Some(c);
                            r.unwrap_or_else(|e| format!("err {e}"))
                        }
                        Err(e) => format!("err {e}"),
                    }
                } else {
                    match txn.take() {
                        Some(c) => {
                            let r = c.query_row("SELECT count(*), COALESCE(min(gen), 0), COALESCE(max(gen), 0) FROM g WHERE id >= ?", [split], |r| {
                                Ok(format!("ok {} {} {}", r.get::<_, i64>(0)?, r.get::<_, i64>(1)?, r.get::<_, i64>(2)?))
                            });
                            let ic: Result<String, _> = c.query_row("PRAGMA quick_check", [], |r| r.get(0));
                            let _ = c.execute_batch("COMMIT");
                            match (r, ic) {
                                (Ok(a), Ok(i)) => format!("{a} {}", i.replace(' ', "_")),
                                (Err(e), _) | (_, Err(e)) => format!("err {e}"),
                            }
                        }
                        None => "err no-transaction".into(),
                    }
                }
            }
            "long" => match long.as_ref() {
                Some(c) => read(c).unwrap_or_else(|e| format!("err {e}")),
                None => "err not-open".into(),
            },
            "fresh" => match Connection::open_with_flags(db, OpenFlags::SQLITE_OPEN_READ_WRITE) {
                Ok(c) => {
                    let _ = c.busy_timeout(std::time::Duration::from_millis(0));
                    read(&c).unwrap_or_else(|e| format!("err {e}"))
                }
                Err(e) => format!("err {e}"),
            },
            _ => "err unknown-command".into(),
        };
        println!("{}", ans.replace('\n', " "));
    }
}

fn make_gen_db(path: &Path, wal: bool, generation: i64, rows: u32) -> R<()> {
    let _ = std::fs::remove_file(path);
    let conn = Connection::open(path)?;
    let mode = if wal { "WAL" } else { "DELETE" };
    let _: String = conn.query_row(&format!("PRAGMA journal_mode = {mode}"), [], |r| r.get(0))?;
    conn.execute_batch("CREATE TABLE g (id INTEGER PRIMARY KEY, gen INTEGER NOT NULL, pad TEXT NOT NULL); CREATE INDEX g_gen ON g (gen, id);")?;
    let tx = conn.unchecked_transaction()?;
    {
        let mut st = tx.prepare("INSERT INTO g (id, gen, pad) VALUES (?, ?, ?)")?;
        for i in 0..rows {
            st.execute(rusqlite::params![i as i64, generation, "p".repeat(100 + (i % 7) as usize)])?;
        }
    }
    tx.commit()?;
    if wal {
        // leave some content in the WAL of the destination (not checkpointed)
        conn.execute("INSERT INTO g (id, gen, pad) VALUES (?, ?, 'tail')", rusqlite::params![1_000_000i64, generation])?;
    }
    Ok(())
}

fn expected(generation: i64, rows: u32, wal: bool) -> (i64, i64) {
    (rows as i64 + if wal { 1 } else { 0 }, generation)
}

fn judge(ans: &str, old: (i64, i64), new: (i64, i64)) -> Result<&'static str, String> {
    if let Some(rest) = ans.strip_prefix("ok ") {
        let p: Vec<&str> = rest.split(' ').collect();
        let n: i64 = p[0].parse().unwrap_or(-1);
        let lo: i64 = p[1].parse().unwrap_or(-1);
        let hi: i64 = p[2].parse().unwrap_or(-1);
        let ic = p.get(4).copied().unwrap_or("");
        let is = |e: (i64, i64)| n == e.0 && (e.0 == 0 || (lo == e.1 && hi == e.1));
        if ic != "ok" {
            return Err(format!("successful read reports a damaged database: {ans}"));
        }
        if is(old) {
            Ok("old")
        } else if is(new) {
            Ok("new")
        } else {
            Err(format!("successful read shows neither the old nor the new database: {ans} (old = {old:?}, new = {new:?})"))
        }
    } else {
        Ok("refused")
    }
}

#[allow(clippy::too_many_arguments)]
async fn restore_live(dir: &Path, wal: bool, old_rows: u32, new_rows: u32, reads_per_gate: u8, long_lived: bool, txn_reader: bool, stats: &mut Stats, log: &mut Vec<String>) -> R<Result<(), Violation>> {
    let dst = dir.join("live.db");
    let src = dir.join("new.db");
    make_gen_db(&dst, wal, 1, old_rows)?;
    // the source of a restore is a backup: WAL mode, checkpointed (see `backup`)
    make_gen_db(&src, false, 2, new_rows)?;
    {
        let c = Connection::open(&src)?;
        let _: String = c.query_row("PRAGMA journal_mode = WAL", [], |r| r.get(0))?;
        c.execute_batch("PRAGMA wal_checkpoint(TRUNCATE);")?;
    }
    let old = expected(1, old_rows, wal);
    let new = expected(2, new_rows, false);
    stats.fault(if wal { "destination-wal" } else { "destination-rollback-journal" });
    if new_rows < old_rows {
        stats.fault("new-database-smaller");
    }
    let mut reader = Reader::spawn(&dst)?;
    let mut seen: Vec<String> = vec![];
    if long_lived {
        stats.fault("reader-connection-open-since-before-the-restore");
        let a = reader.ask("open")?;
        match judge(&a, old, new) {
            Ok("old") => {}
            Ok(other) => return Ok(Err(vio("read-before-restore-wrong", json!({"answer": a, "judged": other})))),
            Err(e) => return Ok(Err(vio("read-before-restore-wrong", json!({"error": e})))),
        }
    }
    let split = (old_rows / 2) as i64;
    let mut first_half: Option<(i64, i64, i64)> = None;
    if txn_reader {
        stats.fault("reader-inside-a-read-transaction-when-the-restore-starts");
        let a = reader.ask(&format!("begin {split}"))?;
        if let Some(rest) = a.strip_prefix("ok ") {
            let p: Vec<i64> = rest.split(' ').filter_map(|x| x.parse().ok()).collect();
            if p.len() == 3 {
                first_half = Some((p[0], p[1], p[2]));
            }
        }
        if first_half.is_none() {
            return Ok(Err(vio("read-before-restore-wrong", json!({"answer": a, "reader": "transaction"}))));
        }
    }
    for g in ["restore-locked", "restore-copied", "restore-done"] {
        verif::gate_arm(g);
    }
    let (s2, d2) = (src.clone(), dst.clone());
    let h = tokio::task::spawn_blocking(move || klukai_types::sqlite3_restore::restore(&s2, &d2, std::time::Duration::from_millis(if txn_reader { 700 } else { 5000 })));
    let mut result = None;
    let gates = ["restore-locked", "restore-copied", "restore-done"];
    let mut gi = 0;
    // (a refused WAL-mode read costs SQLite's own ~10 s retry protocol; only the time spent
    // waiting for the restore itself is limited)
    let mut start = std::time::Instant::now();
    loop {
        if h.is_finished() {
            break;
        }
        if gi < gates.len() && verif::gate_parked(gates[gi]) > 0 {
            stats.fault(&format!("reads-at-{}", gates[gi]));
            for k in 0..reads_per_gate {
                let cmd = if long_lived && k % 2 == 0 { "long" } else { "fresh" };
                let a = reader.ask(cmd)?;
                stats.oracle_checks += 1;
                match judge(&a, old, new) {
                    Ok(what) => {
                        stats.probe(&format!("c19.read-during-restore.{what}"));
                        seen.push(format!("{}:{cmd}:{what}", gates[gi]));
                    }
                    Err(e) => {
                        for g in gates {
                            verif::gate_release(g);
                        }
                        let _ = h.await;
                        return Ok(Err(vio("reader-saw-a-mixture-during-restore", json!({"gate": gates[gi], "reader": cmd, "error": e, "wal": wal, "old_rows": old_rows, "new_rows": new_rows}))));
                    }
                }
            }
            verif::gate_release(gates[gi]);
            gi += 1;
            start = std::time::Instant::now();
            continue;
        }
        if start.elapsed() > std::time::Duration::from_secs(60) {
            for g in gates {
                verif::gate_release(g);
            }
            return Err(SimError::Harness("restore neither parked nor finished".into()));
        }
        tokio::time::sleep(std::time::Duration::from_micros(200)).await;
    }
    for g in gates {
        verif::gate_release(g);
    }
    match h.await {
        Ok(r) => result = Some(r),
        Err(e) => return Err(SimError::Harness(format!("restore panicked: {e}"))),
    }
    let res = result.unwrap();
    log.push(format!("restore_live wal={wal} {old_rows}->{new_rows}: {:?} reads: {seen:?}", res.as_ref().map(|r| (r.old_len, r.new_len)).map_err(|e| e.to_string())));
    if let Some((n1, lo1, hi1)) = first_half {
        // the transaction that was open across the restore: what it reads now together with
        // what it read before must be one database (or it is refused)
        let a = reader.ask(&format!("finish {split}"))?;
        stats.oracle_checks += 1;
        if let Some(rest) = a.strip_prefix("ok ") {
            let p: Vec<&str> = rest.split(' ').collect();
            let n2: i64 = p[0].parse().unwrap_or(-1);
            let lo2: i64 = p[1].parse().unwrap_or(-1);
            let hi2: i64 = p[2].parse().unwrap_or(-1);
            let ic = p.get(3).copied().unwrap_or("");
            let gens: std::collections::BTreeSet<i64> = [lo1, hi1, lo2, hi2].into_iter().filter(|g| *g != 0).collect();
            let total = n1 + n2;
            let one_db = gens.len() <= 1 && ic == "ok" && (total == old.0 && gens.iter().all(|g| *g == old.1) || total == new.0 && gens.iter().all(|g| *g == new.1) || total == 0);
            if !one_db {
                return Ok(Err(vio(
                    "read-transaction-open-across-the-restore-saw-a-mixture",
                    json!({"first_half": [n1, lo1, hi1], "second_half": [n2, lo2, hi2], "quick_check": ic, "old": [old.0, old.1], "new": [new.0, new.1], "wal": wal,
                           "restore_result": res.as_ref().map(|_| "ok").map_err(|e| e.to_string())}),
                )));
            }
            stats.probe("c19.transaction-across-restore.consistent");
        } else {
            stats.probe("c19.transaction-across-restore.refused");
        }
    }
    // after the restore: every read succeeds within a few attempts and shows entirely the
    // new database (or, if the restore failed, entirely the old one)
    let want = if res.is_ok() { "new" } else { "old" };
    if res.is_err() {
        stats.probe("c19.restore-failed");
    }
    for cmd in if long_lived { vec!["long", "fresh", "long"] } else { vec!["fresh", "fresh"] } {
        let mut last = String::new();
        let mut ok = false;
        for _ in 0..5 {
            let a = reader.ask(cmd)?;
            stats.oracle_checks += 1;
            match judge(&a, old, new) {
                Ok(w) if w == want => {
                    ok = true;
                    break;
                }
                Ok("refused") => {
                    last = a;
                }
                Ok(other) => {
                    return Ok(Err(vio(
                        "read-after-restore-shows-the-wrong-database",
                        json!({"reader": cmd, "shows": other, "expected": want, "answer": a, "wal": wal, "old_rows": old_rows, "new_rows": new_rows, "restore_result": res.as_ref().map(|_| "ok").map_err(|e| e.to_string())}),
                    )));
                }
                Err(e) => {
                    return Ok(Err(vio("reader-saw-a-mixture-after-restore", json!({"reader": cmd, "error": e, "wal": wal, "old_rows": old_rows, "new_rows": new_rows}))));
                }
            }
        }
        if !ok {
            return Ok(Err(vio("reader-still-refused-after-restore", json!({"reader": cmd, "answer": last, "wal": wal, "old_rows": old_rows, "new_rows": new_rows}))));
        }
        stats.probe(&format!("c19.read-after-restore.{cmd}"));
    }
    Ok(Ok(()))
}
