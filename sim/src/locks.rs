//! T6: lock-order analysis over the acquisition traces recorded by the guarded
//! hooks (LockRegistry + SplitPool). Schedule independent: "holds X while
//! requesting Y" edges are facts about each activity.

use std::collections::{BTreeMap, BTreeSet};

use klukai_types::verif::LockEvent;
use serde_json::json;

use crate::trace::Violation;

fn class(resource: &str) -> &'static str {
    if resource.starts_with("pool@") {
        "pool"
    } else if resource.contains("BookieInner") {
        "bookie"
    } else if resource.contains("BookedVersions") {
        "booked"
    } else {
        "other"
    }
}

#[derive(Default)]
pub struct LockReport {
    pub acquisitions: u64,
    pub edges: BTreeSet<(String, String)>,
    pub class_edges: BTreeMap<(String, String), u64>,
}

pub fn analyze(events: &[LockEvent]) -> (LockReport, Option<Violation>) {
    let mut rep = LockReport::default();
    // id -> (task, resource, kind, label)
    let mut by_id: BTreeMap<usize, (u64, String, &'static str, &'static str)> = BTreeMap::new();
    // task -> held ids
    let mut held: BTreeMap<u64, Vec<usize>> = BTreeMap::new();
    let mut violation = None;
    for e in events {
        if e.label.starts_with("sim") {
            continue;
        }
        match e.phase {
            "acquiring" => {
                rep.acquisitions += 1;
                by_id.insert(e.id, (e.task, e.resource.clone(), e.kind, e.label));
                for h in held.get(&e.task).cloned().unwrap_or_default() {
                    let Some((_, hres, hkind, hlabel)) = by_id.get(&h).cloned() else { continue };
                    if hres == e.resource && hkind == "read" && e.kind == "read" {
                        continue; // re-entrant read of the same lock by one task
                    }
                    rep.edges.insert((hres.clone(), e.resource.clone()));
                    *rep
                        .class_edges
                        .entry((format!("{}({})", class(&hres), hkind), format!("{}({})", class(&e.resource), e.kind)))
                        .or_default() += 1;
                    if class(&e.resource) == "pool" && class(&hres) != "pool" && hkind == "write" {
                        violation.get_or_insert(Violation::new(
                            "C20",
                            "write-connection-awaited-while-holding-bookkeeping-lock",
                            json!({"holding": class(&hres), "holding_label": hlabel, "requesting_label": e.label}),
                        ));
                    }
                    if class(&hres) == "booked" && class(&e.resource) == "bookie" {
                        violation.get_or_insert(Violation::new(
                            "C20",
                            "bookie-requested-while-holding-booked",
                            json!({"holding_label": hlabel, "requesting_label": e.label}),
                        ));
                    }
                    if hres == e.resource && (hkind == "write" || e.kind == "write") {
                        violation.get_or_insert(Violation::new(
                            "C20",
                            "lock-requested-again-by-its-holder",
                            json!({"resource": class(&hres), "holding_label": hlabel, "requesting_label": e.label}),
                        ));
                    }
                }
            }
            "locked" => {
                if let Some((task, _, _, label)) = by_id.get(&e.id) {
                    // setup() takes the own Booked with an *owned* guard under the label "init"
                    // and moves it into a helper task (the only owned guard in the code base):
                    // it is not held by the acquiring task afterwards
                    if *label == "init" && e.kind == "write" && by_id.get(&e.id).is_some_and(|x| class(&x.1) == "booked") {
                        continue;
                    }
                    held.entry(*task).or_default().push(e.id);
                }
            }
            "released" => {
                if let Some((task, ..)) = by_id.remove(&e.id) {
                    if let Some(v) = held.get_mut(&task) {
                        v.retain(|x| *x != e.id);
                    }
                }
            }
            _ => {}
        }
    }
    // cycle detection on the instance-level graph
    let mut adj: BTreeMap<&String, Vec<&String>> = BTreeMap::new();
    for (a, b) in rep.edges.iter() {
        if a != b {
            adj.entry(a).or_default().push(b);
        }
    }
    let mut color: BTreeMap<&String, u8> = BTreeMap::new();
    fn dfs<'a>(
        n: &'a String,
        adj: &BTreeMap<&'a String, Vec<&'a String>>,
        color: &mut BTreeMap<&'a String, u8>,
        path: &mut Vec<&'a String>,
    ) -> Option<Vec<String>> {
        color.insert(n, 1);
        path.push(n);
        for m in adj.get(n).cloned().unwrap_or_default() {
            match color.get(m).copied().unwrap_or(0) {
                0 => {
                    if let Some(c) = dfs(m, adj, color, path) {
                        return Some(c);
                    }
                }
                1 => {
                    let i = path.iter().position(|x| *x == m).unwrap_or(0);
                    return Some(path[i..].iter().map(|s| class(s).to_string()).collect());
                }
                _ => {}
            }
        }
        path.pop();
        color.insert(n, 2);
        None
    }
    let nodes: Vec<&String> = adj.keys().copied().collect();
    for n in nodes {
        if color.get(n).copied().unwrap_or(0) == 0 {
            let mut path = vec![];
            if let Some(cycle) = dfs(n, &adj, &mut color, &mut path) {
                violation.get_or_insert(Violation::new(
                    "C20",
                    "lock-order-cycle",
                    json!({"cycle": cycle}),
                ));
                break;
            }
        }
    }
    (rep, violation)
}
