//! Seeded PRNG: splitmix64 for seeding/derivation, xoshiro256** for streams.
//! Own implementation so replay never depends on a crate version.

#[derive(Clone, Debug)]
pub struct Rng {
    s: [u64; 4],
}

pub fn splitmix(x: &mut u64) -> u64 {
    *x = x.wrapping_add(0x9E37_79B9_7F4A_7C15);
    let mut z = *x;
    z = (z ^ (z >> 30)).wrapping_mul(0xBF58_476D_1CE4_E5B9);
    z = (z ^ (z >> 27)).wrapping_mul(0x94D0_49BB_1331_11EB);
    z ^ (z >> 31)
}

/// Derive a run seed from (batch seed, check id, run index).
pub fn derive(seed: u64, tag: &str, i: u64) -> u64 {
    let mut x = seed ^ 0xA5A5_5A5A_1234_5678;
    for b in tag.bytes() {
        x = x.wrapping_mul(0x100_0000_01B3) ^ (b as u64);
        splitmix(&mut x);
    }
    x ^= i.wrapping_mul(0x9E37_79B9_7F4A_7C15);
    splitmix(&mut x)
}

impl Rng {
    pub fn new(seed: u64) -> Self {
        let mut x = seed;
        let s = [
            splitmix(&mut x),
            splitmix(&mut x),
            splitmix(&mut x),
            splitmix(&mut x),
        ];
        Rng { s }
    }

    /// Independent sub-stream for a purpose.
    pub fn fork(&self, tag: &str) -> Rng {
        Rng::new(derive(self.s[0] ^ self.s[2].rotate_left(17), tag, 0))
    }

    pub fn next_u64(&mut self) -> u64 {
        let result = self.s[1].wrapping_mul(5).rotate_left(7).wrapping_mul(9);
        let t = self.s[1] << 17;
        self.s[2] ^= self.s[0];
        self.s[3] ^= self.s[1];
        self.s[1] ^= self.s[2];
        self.s[0] ^= self.s[3];
        self.s[2] ^= t;
        self.s[3] = self.s[3].rotate_left(45);
        result
    }

    /// uniform in 0..n (n > 0)
    pub fn below(&mut self, n: u64) -> u64 {
        debug_assert!(n > 0);
        // multiply-shift; bias is irrelevant here
        ((self.next_u64() as u128 * n as u128) >> 64) as u64
    }

    pub fn usize_below(&mut self, n: usize) -> usize {
        self.below(n as u64) as usize
    }

    /// uniform in lo..=hi
    pub fn range(&mut self, lo: u64, hi: u64) -> u64 {
        lo + self.below(hi - lo + 1)
    }

    pub fn chance(&mut self, p: f64) -> bool {
        (self.next_u64() >> 11) as f64 / ((1u64 << 53) as f64) < p
    }

    pub fn f64(&mut self) -> f64 {
        (self.next_u64() >> 11) as f64 / ((1u64 << 53) as f64)
    }

    pub fn pick<'a, T>(&mut self, v: &'a [T]) -> &'a T {
        &v[self.usize_below(v.len())]
    }

    pub fn shuffle<T>(&mut self, v: &mut [T]) {
        for i in (1..v.len()).rev() {
            let j = self.usize_below(i + 1);
            v.swap(i, j);
        }
    }

    /// weighted choice: returns index
    pub fn weighted(&mut self, w: &[u32]) -> usize {
        let total: u64 = w.iter().map(|x| *x as u64).sum();
        debug_assert!(total > 0);
        let mut r = self.below(total);
        for (i, x) in w.iter().enumerate() {
            if r < *x as u64 {
                return i;
            }
            r -= *x as u64;
        }
        w.len() - 1
    }
}
