#![feature(step_trait)]
#![allow(clippy::too_many_arguments, clippy::type_complexity)]

mod cli;
mod locks;
mod model;
mod node;
mod rng;
mod t1;
mod t12c;
mod t15;
mod t16;
mod t6;
mod t17;
mod t19;
mod t3;
mod t4;
mod t5;
mod t7;
mod t8;
mod trace;

#[global_allocator]
static ALLOC: t7::Counting = t7::Counting;

#[derive(Debug)]
pub enum SimError {
    /// the harness itself failed (exit 2) – never a property verdict
    Harness(String),
}

impl std::fmt::Display for SimError {
    fn fmt(&self, f: &mut std::fmt::Formatter<'_>) -> std::fmt::Result {
        match self {
            SimError::Harness(s) => write!(f, "harness error: {s}"),
        }
    }
}

impl From<std::io::Error> for SimError {
    fn from(e: std::io::Error) -> Self {
        SimError::Harness(format!("io: {e}"))
    }
}

impl From<rusqlite::Error> for SimError {
    fn from(e: rusqlite::Error) -> Self {
        SimError::Harness(format!("sqlite: {e}"))
    }
}

impl From<serde_json::Error> for SimError {
    fn from(e: serde_json::Error) -> Self {
        SimError::Harness(format!("json: {e}"))
    }
}

fn main() {
    std::process::exit(cli::main());
}
