//! T7: byte-stream tier (C09). The peer is the simulator: it sends valid frames
//! (round trip) and garbled ones (bit flips, truncation, inflated length fields,
//! insertions/deletions, concatenation, arbitrary split points) through the same
//! framing + decode entry points the agent uses for uni streams, bi streams and
//! sync messages, and through the primary-key packer.
//!
//! Cases run in a child process (an abort is observed by the parent as a fault
//! of the case, not as the end of the batch) with a counting allocator.

use std::{
    io::{BufRead, BufReader, Write},
    process::{Command, Stdio},
    sync::atomic::{AtomicBool, AtomicUsize, Ordering},
};

use bytes::{BufMut, BytesMut};
use klukai_types::{
    actor::{ActorId, ClusterId},
    api::{ColumnName, SqliteValue, TableName},
    base::{CrsqlDbVersion, CrsqlSeq},
    broadcast::{BiPayload, BiPayloadV1, BroadcastV1, ChangeV1, Changeset, Timestamp, UniPayload, UniPayloadV1},
    change::Change,
    pubsub::{pack_columns, unpack_columns},
    sync::{SyncMessage, SyncMessageV1, SyncNeedV1, SyncRejectionV1, SyncStateV1, SyncTraceContextV1},
};
use serde_json::json;
use speedy::{Readable, Writable};
use tokio_util::codec::{Decoder, Encoder, LengthDelimitedCodec};

use crate::{
    SimError,
    node::R,
    rng::Rng,
    trace::{RunOutcome, Stats, Violation, fnv},
};

// ---------------------------------------------------------------------------
// counting allocator (tracking is only ever switched on in the t7 child)

pub static TRACK: AtomicBool = AtomicBool::new(false);
static CUR: AtomicUsize = AtomicUsize::new(0);
static PEAK: AtomicUsize = AtomicUsize::new(0);
static BIGGEST: AtomicUsize = AtomicUsize::new(0);

pub struct Counting;

unsafe impl std::alloc::GlobalAlloc for Counting {
    unsafe fn alloc(&self, l: std::alloc::Layout) -> *mut u8 {
        if TRACK.load(Ordering::Relaxed) {
            let c = CUR.fetch_add(l.size(), Ordering::Relaxed) + l.size();
            PEAK.fetch_max(c, Ordering::Relaxed);
            BIGGEST.fetch_max(l.size(), Ordering::Relaxed);
        }
        unsafe { std::alloc::System.alloc(l) }
    }
    unsafe fn dealloc(&self, p: *mut u8, l: std::alloc::Layout) {
        if TRACK.load(Ordering::Relaxed) {
            let _ = CUR.fetch_update(Ordering::Relaxed, Ordering::Relaxed, |c| Some(c.saturating_sub(l.size())));
        }
        unsafe { std::alloc::System.dealloc(p, l) }
    }
    unsafe fn realloc(&self, p: *mut u8, l: std::alloc::Layout, new: usize) -> *mut u8 {
        if TRACK.load(Ordering::Relaxed) {
            if new > l.size() {
                let c = CUR.fetch_add(new - l.size(), Ordering::Relaxed) + (new - l.size());
                PEAK.fetch_max(c, Ordering::Relaxed);
                BIGGEST.fetch_max(new, Ordering::Relaxed);
            } else {
                let _ = CUR.fetch_update(Ordering::Relaxed, Ordering::Relaxed, |c| Some(c.saturating_sub(l.size() - new)));
            }
        }
        unsafe { std::alloc::System.realloc(p, l, new) }
    }
}

fn track<T>(f: impl FnOnce() -> T) -> (T, usize, usize) {
    CUR.store(0, Ordering::Relaxed);
    PEAK.store(0, Ordering::Relaxed);
    BIGGEST.store(0, Ordering::Relaxed);
    TRACK.store(true, Ordering::Relaxed);
    let r = f();
    TRACK.store(false, Ordering::Relaxed);
    (r, PEAK.load(Ordering::Relaxed), BIGGEST.load(Ordering::Relaxed))
}

// ---------------------------------------------------------------------------
// generators

fn gen_value(r: &mut Rng) -> SqliteValue {
    match r.below(9) {
        0 => SqliteValue::Null,
        1 => SqliteValue::Integer(*r.pick(&[0i64, 1, -1, 127, 128, 200, 255, 256, 32767, 32768, 65535, 1 << 31, -(1 << 31), i64::MAX, i64::MIN, 0x00FF_0000_0000_0000])),
        2 => SqliteValue::Integer(r.next_u64() as i64 >> r.below(64)),
        3 => SqliteValue::Real(klukai_types::api::Real(*r.pick(&[0.0f64, -0.0, 1.5, f64::INFINITY, f64::NEG_INFINITY, f64::MAX, f64::MIN_POSITIVE]))),
        4 => SqliteValue::Text("".into()),
        5 => SqliteValue::Text(r.pick(&["a", "héllo wörld", "日本語テキスト", "🦀🦀", "x'; DROP TABLE t;--"]).to_string().into()),
        6 => {
            let n = *r.pick(&[1usize, 30, 300, 5000, 70_000]);
            SqliteValue::Text("ab".repeat(n / 2 + 1).into())
        }
        7 => SqliteValue::Blob(Default::default()),
        _ => {
            let n = *r.pick(&[1usize, 16, 511, 512, 513, 4096, 100_000]);
            let b: Vec<u8> = (0..n).map(|i| (i as u8) ^ (r.next_u64() as u8)).collect();
            SqliteValue::Blob(b.into())
        }
    }
}

fn gen_actor(r: &mut Rng) -> ActorId {
    let mut b = [0u8; 16];
    for x in b.iter_mut() {
        *x = r.next_u64() as u8;
    }
    ActorId(uuid::Uuid::from_bytes(b))
}

fn gen_change(r: &mut Rng, seq: u64) -> Change {
    let pk_vals: Vec<SqliteValue> = (0..r.range(1, 3)).map(|_| gen_value(r)).collect();
    Change {
        table: TableName(r.pick(&["t1", "tests", "a_rather_long_table_name_for_testing_purposes"]).to_string().into()),
        pk: pack_columns(&pk_vals).unwrap_or_default(),
        cid: ColumnName(r.pick(&["a", "-1", "text", "col_with_ünïcode"]).to_string().into()),
        val: gen_value(r),
        col_version: r.range(1, 1 << 20) as i64,
        db_version: CrsqlDbVersion(r.range(1, 1 << 30)),
        seq: CrsqlSeq(seq),
        site_id: gen_actor(r).to_bytes(),
        cl: r.range(1, 9) as i64,
    }
}

fn gen_changeset(r: &mut Rng) -> Changeset {
    match r.below(4) {
        0 => Changeset::Empty {
            versions: CrsqlDbVersion(r.range(1, 100))..=CrsqlDbVersion(r.range(100, u64::MAX >> 1)),
            ts: if r.chance(0.5) { Some(Timestamp::from(r.next_u64())) } else { None },
        },
        1 => Changeset::EmptySet {
            versions: (0..r.below(5)).map(|i| CrsqlDbVersion(i * 10 + 1)..=CrsqlDbVersion(i * 10 + 5)).collect(),
            ts: Timestamp::from(r.next_u64()),
        },
        _ => {
            let n = r.below(6);
            let start = r.below(100);
            Changeset::Full {
                version: CrsqlDbVersion(r.range(1, 1 << 40)),
                changes: (0..n).map(|i| gen_change(r, start + i)).collect(),
                seqs: CrsqlSeq(start)..=CrsqlSeq(start + n.max(1) - 1),
                last_seq: CrsqlSeq(start + n + r.below(5)),
                ts: Timestamp::from(r.next_u64()),
            }
        }
    }
}

fn gen_state(r: &mut Rng) -> SyncStateV1 {
    let mut st = SyncStateV1 { actor_id: gen_actor(r), ..Default::default() };
    for _ in 0..r.below(4) {
        let a = gen_actor(r);
        st.heads.insert(a, CrsqlDbVersion(r.range(1, 1000)));
        if r.chance(0.5) {
            st.need.insert(a, (0..r.range(1, 3)).map(|i| CrsqlDbVersion(i * 7 + 1)..=CrsqlDbVersion(i * 7 + 3)).collect());
        }
        if r.chance(0.5) {
            let mut m = std::collections::HashMap::new();
            for v in 0..r.range(1, 3) {
                m.insert(CrsqlDbVersion(900 + v), vec![CrsqlSeq(0)..=CrsqlSeq(r.range(0, 50))]);
            }
            st.partial_need.insert(a, m);
        }
    }
    if r.chance(0.3) {
        st.last_cleared_ts = Some(Timestamp::from(r.next_u64()));
    }
    st
}

#[derive(Clone, Copy, Debug, PartialEq)]
enum Kind {
    Uni,
    Bi,
    Sync,
}

/// encodes one valid message of the given kind with the production writer
fn gen_message(r: &mut Rng, kind: Kind, with_cluster: bool) -> Vec<u8> {
    match kind {
        Kind::Uni => {
            let p = UniPayload::V1 {
                data: UniPayloadV1::Broadcast(BroadcastV1::Change(ChangeV1 { actor_id: gen_actor(r), changeset: gen_changeset(r) })),
                cluster_id: ClusterId(if with_cluster { r.below(3) as u16 } else { 0 }),
            };
            let mut v = p.write_to_vec().unwrap();
            if !with_cluster {
                v.truncate(v.len() - 2); // old senders: no trailing cluster id (default_on_eof)
            }
            v
        }
        Kind::Bi => {
            let p = BiPayload::V1 {
                data: BiPayloadV1::SyncStart {
                    actor_id: gen_actor(r),
                    trace_ctx: SyncTraceContextV1 {
                        traceparent: if r.chance(0.5) { Some("00-abc-def-01".into()) } else { None },
                        tracestate: None,
                    },
                },
                cluster_id: ClusterId(r.below(3) as u16),
            };
            p.write_to_vec().unwrap()
        }
        Kind::Sync => {
            let m = match r.below(5) {
                0 => SyncMessageV1::State(gen_state(r)),
                1 => SyncMessageV1::Changeset(ChangeV1 { actor_id: gen_actor(r), changeset: gen_changeset(r) }),
                2 => SyncMessageV1::Clock(Timestamp::from(r.next_u64())),
                3 => SyncMessageV1::Rejection(if r.chance(0.5) { SyncRejectionV1::MaxConcurrencyReached } else { SyncRejectionV1::DifferentCluster }),
                _ => SyncMessageV1::Request(
                    (0..r.below(3))
                        .map(|_| {
                            (
                                gen_actor(r),
                                (0..r.below(4))
                                    .map(|k| match k % 3 {
                                        0 => SyncNeedV1::Full { versions: CrsqlDbVersion(1)..=CrsqlDbVersion(r.range(1, 99)) },
                                        1 => SyncNeedV1::Partial { version: CrsqlDbVersion(5), seqs: vec![CrsqlSeq(0)..=CrsqlSeq(9), CrsqlSeq(20)..=CrsqlSeq(29)] },
                                        _ => SyncNeedV1::Empty { ts: Some(Timestamp::from(7u64)) },
                                    })
                                    .collect(),
                            )
                        })
                        .collect(),
                ),
            };
            SyncMessage::V1(m).write_to_vec().unwrap()
        }
    }
}

/// Decode through the agent's entry point for that stream kind; Ok(re-encoded bytes) on success.
fn decode(kind: Kind, frame: &[u8]) -> Result<Vec<u8>, String> {
    match kind {
        Kind::Uni => UniPayload::read_from_buffer(frame).map_err(|e| e.to_string()).map(|p| {
            check_texts_uni(&p);
            p.write_to_vec().unwrap()
        }),
        Kind::Bi => BiPayload::read_from_buffer(frame).map_err(|e| e.to_string()).map(|p| p.write_to_vec().unwrap()),
        Kind::Sync => {
            let mut b = BytesMut::from(frame);
            SyncMessage::from_buf(&mut b).map_err(|e| e.to_string()).map(|m| {
                if let SyncMessage::V1(SyncMessageV1::Changeset(c)) = &m {
                    check_texts(&c.changeset);
                }
                m.write_to_vec().unwrap()
            })
        }
    }
}

thread_local! {
    static BAD_UTF8: std::cell::Cell<bool> = const { std::cell::Cell::new(false) };
}

fn check_texts(cs: &Changeset) {
    for c in cs.changes() {
        if let SqliteValue::Text(t) = &c.val {
            if std::str::from_utf8(t.as_bytes()).is_err() {
                BAD_UTF8.with(|b| b.set(true));
            }
        }
    }
}

fn check_texts_uni(p: &UniPayload) {
    let UniPayload::V1 { data: UniPayloadV1::Broadcast(BroadcastV1::Change(c)), .. } = p;
    check_texts(&c.changeset);
}

/// the agent's framing: length-delimited, 100 MiB max
fn deframe(stream: &[u8], splits: &[usize]) -> Result<Vec<BytesMut>, String> {
    let mut codec = LengthDelimitedCodec::builder().max_frame_length(100 * 1_024 * 1_024).new_codec();
    let mut buf = BytesMut::new();
    let mut out = vec![];
    let mut pos = 0;
    let mut cuts: Vec<usize> = splits.iter().copied().filter(|s| *s < stream.len()).collect();
    cuts.push(stream.len());
    cuts.sort();
    for c in cuts {
        buf.extend_from_slice(&stream[pos..c]);
        pos = c;
        loop {
            match codec.decode(&mut buf) {
                Ok(Some(f)) => out.push(f),
                Ok(None) => break,
                Err(e) => return Err(e.to_string()),
            }
        }
    }
    Ok(out)
}

fn frame(payloads: &[Vec<u8>]) -> Vec<u8> {
    let mut codec = LengthDelimitedCodec::builder().max_frame_length(100 * 1_024 * 1_024).new_codec();
    let mut out = BytesMut::new();
    for p in payloads {
        codec.encode(bytes::Bytes::from(p.clone()), &mut out).unwrap();
    }
    out.to_vec()
}

fn mutate(r: &mut Rng, mut b: Vec<u8>) -> (Vec<u8>, &'static str) {
    if b.is_empty() {
        return (vec![r.next_u64() as u8], "insert");
    }
    match r.below(7) {
        0 => {
            let i = r.usize_below(b.len());
            b[i] ^= 1 << r.below(8);
            (b, "bit-flip")
        }
        1 => {
            let n = r.usize_below(b.len());
            b.truncate(n);
            (b, "truncate")
        }
        2 => {
            // inflate a length-looking field: overwrite 8 bytes with a huge little-endian number
            let i = r.usize_below(b.len());
            let huge = *r.pick(&[u64::MAX, u64::MAX >> 1, 1 << 40, 1 << 32, 0xFFFF_FFFF, 1 << 24]);
            for (k, x) in huge.to_le_bytes().iter().enumerate() {
                if i + k < b.len() {
                    b[i + k] = *x;
                }
            }
            (b, "length-inflation")
        }
        3 => {
            let i = r.usize_below(b.len() + 1);
            let n = r.range(1, 9) as usize;
            for _ in 0..n {
                b.insert(i, r.next_u64() as u8);
            }
            (b, "insert")
        }
        4 => {
            let i = r.usize_below(b.len());
            let n = (r.range(1, 9) as usize).min(b.len() - i);
            b.drain(i..i + n);
            (b, "delete")
        }
        5 => {
            let i = r.usize_below(b.len());
            b[i] = r.next_u64() as u8;
            (b, "byte-replace")
        }
        _ => {
            // variant tag (first bytes) replaced
            let i = r.usize_below(b.len().min(24));
            b[i] = *r.pick(&[3u8, 4, 7, 200, 255]);
            (b, "tag-replace")
        }
    }
}

// ---------------------------------------------------------------------------
// one case

fn run_case(seed: u64, k: u64, crsql: Option<&rusqlite::Connection>) -> (Option<Violation>, &'static str, Vec<&'static str>) {
    let mut r = Rng::new(crate::rng::derive(seed, "t7case", k));
    let mode = r.weighted(&[20, 55, 25]);
    let mut faults = vec![];
    let v = |class: &str, detail: serde_json::Value| Some(Violation::new("C09", class, detail));
    match mode {
        // ----- round trip through framing with arbitrary split points
        0 => {
            let kind = *r.pick(&[Kind::Uni, Kind::Bi, Kind::Sync]);
            let n = r.range(1, 3) as usize;
            let msgs: Vec<Vec<u8>> = (0..n)
                .map(|_| {
                    let with_cluster = r.chance(0.8);
                    gen_message(&mut r, kind, with_cluster)
                })
                .collect();
            let stream = frame(&msgs);
            let splits: Vec<usize> = (0..r.below(6)).map(|_| r.usize_below(stream.len() + 1)).collect();
            if !splits.is_empty() {
                faults.push("split-delivery");
            }
            if n > 1 {
                faults.push("concatenated-frames");
            }
            let frames = match deframe(&stream, &splits) {
                Ok(f) => f,
                Err(e) => return (v("valid-stream-rejected-by-framing", json!({"error": e})), "roundtrip", faults),
            };
            if frames.len() != msgs.len() {
                return (v("frame-count-differs", json!({"sent": msgs.len(), "got": frames.len()})), "roundtrip", faults);
            }
            for (f, m) in frames.iter().zip(msgs.iter()) {
                if kind == Kind::Sync {
                    // maps inside sync states have no canonical order on the wire: compare values
                    let a = SyncMessage::from_buf(&mut BytesMut::from(&f[..]));
                    let b = SyncMessage::from_buf(&mut BytesMut::from(&m[..]));
                    match (a, b) {
                        (Ok(x), Ok(y)) if x == y => {
                            // and the value survives another encode/decode
                            let again = SyncMessage::from_buf(&mut BytesMut::from(&x.write_to_vec().unwrap()[..]));
                            if again.ok() != Some(x) {
                                return (v("roundtrip-differs", json!({"kind": "Sync", "len": m.len()})), "roundtrip", faults);
                            }
                            continue;
                        }
                        (Ok(_), Ok(_)) => return (v("roundtrip-differs", json!({"kind": "Sync", "len": m.len()})), "roundtrip", faults),
                        (Err(e), _) | (_, Err(e)) => {
                            return (v("valid-message-rejected", json!({"kind": "Sync", "error": e.to_string()})), "roundtrip", faults)
                        }
                    }
                }
                match decode(kind, f) {
                    Ok(re) => {
                        // old-style uni frames lack the trailing cluster id: re-encoding adds it
                        let same = re == *m || (kind == Kind::Uni && re.len() == m.len() + 2 && re[..m.len()] == m[..]);
                        if !same {
                            return (v("roundtrip-differs", json!({"kind": format!("{kind:?}"), "len": m.len()})), "roundtrip", faults);
                        }
                    }
                    Err(e) => return (v("valid-message-rejected", json!({"kind": format!("{kind:?}"), "error": e})), "roundtrip", faults),
                }
            }
            (None, "roundtrip", faults)
        }
        // ----- hostile peer
        1 => {
            let kind = *r.pick(&[Kind::Uni, Kind::Bi, Kind::Sync]);
            let valid = gen_message(&mut r, kind, true);
            let (mut bytes, what) = mutate(&mut r, valid);
            faults.push(what);
            if r.chance(0.3) {
                let (b2, w2) = mutate(&mut r, bytes);
                bytes = b2;
                faults.push(w2);
            }
            let len = bytes.len();
            BAD_UTF8.with(|b| b.set(false));
            let (res, peak, biggest) = track(|| std::panic::catch_unwind(|| decode(kind, &bytes).is_ok()));
            match res {
                Err(p) => {
                    let msg = p.downcast_ref::<String>().cloned().or_else(|| p.downcast_ref::<&str>().map(|s| s.to_string())).unwrap_or_default();
                    let class = if msg.contains("capacity overflow") { "decoder-panicked-capacity-overflow" } else { "decoder-panicked" };
                    (v(class, json!({"kind": format!("{kind:?}"), "panic": msg.chars().take(200).collect::<String>(), "mutation": faults, "len": len})), "hostile", faults)
                }
                Ok(_) => {
                    if BAD_UTF8.with(|b| b.get()) {
                        return (v("decoded-text-is-not-utf8", json!({"kind": format!("{kind:?}"), "mutation": faults})), "hostile", faults);
                    }
                    let budget = 64 * len + 64 * 1024;
                    if peak > budget || biggest > budget {
                        return (v("allocation-unrelated-to-input-size", json!({"kind": format!("{kind:?}"), "input_len": len, "peak_bytes": peak, "largest_request": biggest, "mutation": faults})), "hostile", faults);
                    }
                    (None, "hostile", faults)
                }
            }
        }
        // ----- primary key packing
        _ => {
            let n = *r.pick(&[1usize, 1, 2, 3, 5, 40, 255]);
            let vals: Vec<SqliteValue> = (0..n)
                .map(|_| loop {
                    let x = gen_value(&mut r);
                    // keys: no NaN/inf concerns here, sizes kept moderate
                    if !matches!(&x, SqliteValue::Text(t) if t.len() > 6000) && !matches!(&x, SqliteValue::Blob(b) if b.len() > 6000) {
                        break x;
                    }
                })
                .collect();
            let packed = match pack_columns(&vals) {
                Ok(p) => p,
                Err(e) => return (v("pack-failed", json!({"error": e.to_string(), "columns": n})), "pk", faults),
            };
            if r.chance(0.35) {
                // hostile key bytes
                let (bytes, what) = mutate(&mut r, packed.clone());
                faults.push(what);
                let res = std::panic::catch_unwind(|| unpack_columns(&bytes).map(|v| v.len()).ok());
                if let Err(p) = res {
                    let msg = p.downcast_ref::<String>().cloned().or_else(|| p.downcast_ref::<&str>().map(|s| s.to_string())).unwrap_or_default();
                    return (v("unpack-panicked", json!({"panic": msg.chars().take(200).collect::<String>(), "mutation": faults, "len": bytes.len()})), "pk", faults);
                }
                return (None, "pk", faults);
            }
            let un = match std::panic::catch_unwind(|| unpack_columns(&packed).map(|v| v.iter().map(|x| x.to_owned()).collect::<Vec<SqliteValue>>())) {
                Ok(Ok(u)) => u,
                Ok(Err(e)) => return (v("own-packed-key-rejected", json!({"error": e.to_string()})), "pk", faults),
                Err(_) => return (v("unpack-panicked", json!({"own_packed_key": true})), "pk", faults),
            };
            if un != vals {
                let idx = un.iter().zip(vals.iter()).position(|(a, b)| a != b);
                return (
                    v("packed-key-does-not-round-trip", json!({"column": idx, "encoded": idx.map(|i| format!("{:?}", vals[i]).chars().take(60).collect::<String>()), "decoded": idx.map(|i| format!("{:?}", un[i]).chars().take(60).collect::<String>())})),
                    "pk",
                    faults,
                );
            }
            if let Some(conn) = crsql {
                if n <= 20 {
                    let sql = format!("SELECT crsql_pack_columns({})", vec!["?"; n].join(","));
                    let ext: Result<Vec<u8>, _> = conn.query_row(&sql, rusqlite::params_from_iter(vals.iter()), |row| row.get(0));
                    match ext {
                        Ok(e) if e != packed => {
                            return (v("packed-key-differs-from-extension", json!({"columns": n, "ours": crate::model::hex(&packed).chars().take(80).collect::<String>(), "extension": crate::model::hex(&e).chars().take(80).collect::<String>()})), "pk", faults)
                        }
                        Ok(_) => faults.push("compared-with-extension"),
                        Err(_) => {}
                    }
                    // what does the extension itself decode? (trusted base; differences are only counted)
                    let ext_un: Result<Vec<SqliteValue>, _> = conn
                        .prepare_cached("SELECT cell FROM crsql_unpack_columns(?)")
                        .and_then(|mut st| st.query_map([&packed], |row| row.get::<_, SqliteValue>(0)).and_then(|rows| rows.collect()));
                    if let Ok(e) = ext_un {
                        if e != vals {
                            faults.push("extension-unpack-differs-from-encoded-value");
                        }
                    }
                }
            }
            (None, "pk", faults)
        }
    }
}

// ---------------------------------------------------------------------------
// child process: runs cases, reports on stdout

pub fn child_main(args: &[String]) -> i32 {
    let get = |n: &str| args.iter().position(|a| a == n).and_then(|i| args.get(i + 1).cloned());
    let seed: u64 = get("--seed").and_then(|s| s.parse().ok()).unwrap_or(1);
    let start: u64 = get("--start").and_then(|s| s.parse().ok()).unwrap_or(0);
    let count: u64 = get("--count").and_then(|s| s.parse().ok()).unwrap_or(1);
    // address space limit: a huge allocation fails (abort) instead of thrashing the machine
    unsafe {
        let lim = libc::rlimit { rlim_cur: 3 << 30, rlim_max: 3 << 30 };
        libc::setrlimit(libc::RLIMIT_AS, &lim);
    }
    std::panic::set_hook(Box::new(|_| {}));
    let conn = rusqlite::Connection::open_in_memory().ok().and_then(|c| klukai_types::sqlite::CrConn::init(c).ok());
    let out = std::io::stdout();
    let mut stats: std::collections::BTreeMap<String, u64> = Default::default();
    let mut distinct: std::collections::BTreeSet<u64> = Default::default();
    for k in start..start + count {
        {
            let mut o = out.lock();
            let _ = writeln!(o, "S {k}");
            let _ = o.flush();
        }
        let (v, mode, faults) = run_case(seed, k, conn.as_deref());
        *stats.entry(format!("mode.{mode}")).or_default() += 1;
        if !faults.is_empty() {
            // distinct non-trivial cases: the case's whole input is a function of (seed, k);
            // count distinct (mode, fault kinds, case stream) digests
            let mut h = crate::rng::derive(seed, mode, k);
            for f in &faults {
                fnv(&mut h, f.as_bytes());
            }
            distinct.insert(h);
        }
        for f in faults {
            *stats.entry(format!("fault.{f}")).or_default() += 1;
        }
        if let Some(v) = v {
            let mut o = out.lock();
            let _ = writeln!(o, "V {k} {}", serde_json::to_string(&v).unwrap());
        }
    }
    stats.insert("distinct-nontrivial-cases".into(), distinct.len() as u64);
    let mut o = out.lock();
    let _ = writeln!(o, "D {}", serde_json::to_string(&stats).unwrap());
    0
}

/// Parent: one "run" = one batch of cases in a child process.
pub fn run_batch(seed: u64, start: u64, count: u64) -> R<RunOutcome> {
    let exe = std::env::current_exe()?;
    let mut stats = Stats::default();
    let mut violation: Option<Violation> = None;
    let mut culprit: Option<u64> = None;
    let mut next = start;
    let end = start + count;
    let mut h = 0xcbf2_9ce4_8422_2325;
    while next < end {
        let mut child = Command::new(&exe)
            .args(["t7child", "--seed", &seed.to_string(), "--start", &next.to_string(), "--count", &(end - next).to_string()])
            .stdout(Stdio::piped())
            .stderr(Stdio::null())
            .spawn()?;
        let rd = BufReader::new(child.stdout.take().unwrap());
        let mut last_started = None;
        let mut done = false;
        for line in rd.lines() {
            let Ok(line) = line else { break };
            if let Some(k) = line.strip_prefix("S ") {
                last_started = k.parse::<u64>().ok();
                stats.steps += 1;
            } else if let Some(rest) = line.strip_prefix("V ") {
                if let Some((k, js)) = rest.split_once(' ') {
                    if violation.is_none() {
                        if let Ok(mut v) = serde_json::from_str::<Violation>(js) {
                            v.step = 1;
                            culprit = k.parse().ok();
                            violation = Some(v);
                        }
                    }
                    stats.probe("violating-cases");
                    fnv(&mut h, rest.as_bytes());
                }
            } else if let Some(js) = line.strip_prefix("D ") {
                done = true;
                if let Ok(m) = serde_json::from_str::<std::collections::BTreeMap<String, u64>>(js) {
                    for (k, n) in m {
                        if k == "distinct-nontrivial-cases" {
                            stats.probe_n("distinct-nontrivial-cases", n);
                        } else if let Some(f) = k.strip_prefix("fault.") {
                            *stats.faults.entry(f.to_string()).or_default() += n;
                        } else {
                            *stats.events.entry(k).or_default() += n;
                        }
                    }
                }
            }
        }
        let status = child.wait()?;
        if done {
            break;
        }
        // the child died inside a case
        let k = last_started.ok_or_else(|| SimError::Harness(format!("t7 child died before the first case: {status}")))?;
        stats.probe("process-aborts");
        if violation.is_none() {
            culprit = Some(k);
            let mut v = Violation::new(
                "C09",
                "decoder-aborted-the-process",
                json!({"case": k, "status": status.to_string()}),
            );
            v.step = 1;
            violation = Some(v);
        }
        next = k + 1;
    }
    stats.oracle_checks = stats.steps;
    stats.schedule_hash = crate::rng::derive(seed, "t7batch", start);
    stats.nontrivial = true;
    stats.converged = violation.is_none();
    Ok(RunOutcome {
        seed,
        tier: "t7".into(),
        config: json!({"start": start, "count": count}),
        events: culprit.map(|k| vec![json!({"case": k})]).unwrap_or_default(),
        violation,
        known: vec![],
        stats,
        log_digest: h,
    })
}

#[allow(dead_code)]
fn _unused(_: BytesMut) {
    let mut b = BytesMut::new();
    b.put_u8(0);
}
