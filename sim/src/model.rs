//! Reference models: shadow cr-sqlite databases (cr-sqlite merge is the trusted
//! base, corrosion is not involved) and the per-(node, origin) holdings model.

use std::{collections::BTreeMap, path::Path};

use klukai_types::{
    actor::ActorId,
    api::SqliteParam,
    change::{Change, row_to_change},
    sqlite::CrConn,
};
use rangemap::RangeInclusiveSet;
use rusqlite::{Connection, params_from_iter, types::Value};
use serde::{Deserialize, Serialize};

use crate::{SimError, node::R};

/// Statement parameter (serialisable; converts to the API type and to rusqlite).
#[derive(Serialize, Deserialize, Clone, Debug, PartialEq)]
pub enum P {
    N,
    I(i64),
    T(String),
    B(Vec<u8>),
}

impl P {
    pub fn to_param(&self) -> SqliteParam {
        match self {
            P::N => SqliteParam::Null,
            P::I(i) => SqliteParam::Integer(*i),
            P::T(s) => SqliteParam::Text(s.as_str().into()),
            P::B(b) => SqliteParam::Blob(b.clone().into()),
        }
    }
    pub fn to_value(&self) -> Value {
        match self {
            P::N => Value::Null,
            P::I(i) => Value::Integer(*i),
            P::T(s) => Value::Text(s.clone()),
            P::B(b) => Value::Blob(b.clone()),
        }
    }
}

#[derive(Serialize, Deserialize, Clone, Debug, PartialEq)]
pub struct Stmt {
    pub sql: String,
    pub params: Vec<P>,
}

pub const SCHEMA_T1: &[&str] = &[
    "CREATE TABLE t1 (id INTEGER NOT NULL PRIMARY KEY, a TEXT NOT NULL DEFAULT '', b TEXT);",
    "CREATE TABLE t2 (k1 BLOB NOT NULL, k2 TEXT NOT NULL, v TEXT, w INTEGER NOT NULL DEFAULT 0, PRIMARY KEY (k1, k2));",
    "CREATE TABLE t3 (id INTEGER NOT NULL PRIMARY KEY, c1 TEXT NOT NULL DEFAULT '', c2 TEXT NOT NULL DEFAULT '', n1 INTEGER NOT NULL DEFAULT 0, n2 INTEGER);",
];
pub const TABLES_T1: &[(&str, &str)] = &[("t1", "id"), ("t2", "k1, k2"), ("t3", "id")];

/// A plain cr-sqlite database with the same schema, used as executable
/// reference ("the node without corrosion").
pub struct Shadow {
    pub conn: CrConn,
}

impl Shadow {
    pub fn create(path: &Path, site: ActorId, schema: &[&str], tables: &[(&str, &str)]) -> R<Shadow> {
        crate::node::precreate_db(path, site)?;
        let conn = CrConn::init(Connection::open(path)?)?;
        conn.execute_batch(
            "PRAGMA journal_mode = MEMORY; PRAGMA synchronous = OFF; PRAGMA recursive_triggers = ON;",
        )?;
        rusqlite::vtab::series::load_module(&conn)?;
        let _: i64 = conn.query_row("SELECT crsql_config_set('merge-equal-values', 1);", [], |r| {
            r.get(0)
        })?;
        for s in schema {
            conn.execute_batch(s)?;
        }
        for (t, _) in tables {
            let _: String = conn
                .query_row("SELECT crsql_as_crr(?)", [t], |r| r.get::<_, Value>(0))
                .map(|v| format!("{v:?}"))?;
        }
        Ok(Shadow { conn })
    }

    /// Merge changes exactly the way a remote apply does: INSERT INTO crsql_changes.
    pub fn merge(&self, changes: &[Change]) -> R<()> {
        let tx = self.conn.unchecked_transaction()?;
        {
            let mut st = tx.prepare_cached(
                r#"INSERT INTO crsql_changes ("table", pk, cid, val, col_version, db_version, site_id, cl, seq, ts)
                   VALUES (?, ?, ?, ?, ?, ?, ?, ?, ?, '0')"#,
            )?;
            for c in changes {
                st.execute(rusqlite::params![
                    c.table.as_str(),
                    c.pk,
                    c.cid.as_str(),
                    &c.val,
                    c.col_version,
                    c.db_version,
                    &c.site_id,
                    c.cl,
                    c.seq,
                ])?;
            }
        }
        tx.commit()?;
        Ok(())
    }

    /// Execute a local transaction; Ok(true) if committed, Ok(false) if any
    /// statement failed (rolled back).
    pub fn local_tx(&self, stmts: &[Stmt]) -> R<Result<(), String>> {
        let tx = self.conn.unchecked_transaction()?;
        for s in stmts {
            let res = tx
                .prepare(&s.sql)
                .and_then(|mut p| p.execute(params_from_iter(s.params.iter().map(|p| p.to_value()))));
            if let Err(e) = res {
                drop(tx);
                return Ok(Err(e.to_string()));
            }
        }
        tx.commit()?;
        Ok(Ok(()))
    }
}

/// `SELECT * FROM <table> ORDER BY pk` for all tables, rendered canonically.
pub fn dump_tables(conn: &Connection, tables: &[(&str, &str)]) -> R<Vec<String>> {
    let mut out = vec![];
    for (t, pk) in tables {
        let mut st = conn.prepare(&format!("SELECT * FROM {t} ORDER BY {pk}"))?;
        let n = st.column_count();
        let mut rows = st.query([])?;
        while let Some(r) = rows.next()? {
            let mut line = format!("{t}|");
            for i in 0..n {
                let v: Value = r.get(i)?;
                line.push_str(&render(&v));
                line.push('|');
            }
            out.push(line);
        }
    }
    Ok(out)
}

pub fn render(v: &Value) -> String {
    match v {
        Value::Null => "NULL".into(),
        Value::Integer(i) => format!("{i}"),
        Value::Real(f) => format!("{f:?}"),
        Value::Text(s) => {
            if s.len() > 48 {
                format!("'{}..{}#{}'", &s[..24], &s[s.len() - 8..], s.len())
            } else {
                format!("'{s}'")
            }
        }
        Value::Blob(b) => format!("x{}", hex(b)),
    }
}

pub fn render_sv(v: &klukai_types::api::SqliteValue) -> String {
    use klukai_types::api::SqliteValue as S;
    match v {
        S::Null => "NULL".into(),
        S::Integer(i) => format!("{i}"),
        S::Real(f) => format!("{:?}", f.0),
        S::Text(t) => render(&Value::Text(t.to_string())),
        S::Blob(b) => format!("x{}", hex(b)),
    }
}

pub fn hex(b: &[u8]) -> String {
    b.iter().map(|x| format!("{x:02x}")).collect()
}

/// Projection of crsql_changes. `full` adds (site, db_version, seq).
pub fn dump_clock(
    conn: &Connection,
    full: bool,
    site_names: &BTreeMap<[u8; 16], String>,
) -> R<Vec<String>> {
    let mut st = conn.prepare(
        r#"SELECT "table", pk, cid, val, col_version, cl, site_id, db_version, seq FROM crsql_changes ORDER BY "table", pk, cid"#,
    )?;
    let mut rows = st.query([])?;
    let mut out = vec![];
    while let Some(r) = rows.next()? {
        let t: String = r.get(0)?;
        let pk: Vec<u8> = r.get(1)?;
        let cid: String = r.get(2)?;
        let val: Value = r.get(3)?;
        let cv: i64 = r.get(4)?;
        let cl: i64 = r.get(5)?;
        let mut line = format!("{t}|{}|{cid}|{}|cv{cv}|cl{cl}", hex(&pk), render(&val));
        if full {
            let site: [u8; 16] = r.get(6)?;
            let dbv: i64 = r.get(7)?;
            let seq: i64 = r.get(8)?;
            let name = site_names
                .get(&site)
                .cloned()
                .unwrap_or_else(|| format!("?{}", hex(&site)));
            line.push_str(&format!("|{name}|v{dbv}|s{seq}"));
        }
        out.push(line);
    }
    Ok(out)
}

pub fn read_version_changes(conn: &Connection, actor: ActorId, version: u64) -> R<Vec<Change>> {
    let mut st = conn.prepare_cached(
        r#"SELECT "table", pk, cid, val, col_version, db_version, seq, site_id, cl
             FROM crsql_changes WHERE site_id = ? AND db_version = ? ORDER BY seq ASC"#,
    )?;
    let rows = st.query_map(rusqlite::params![actor, version], row_to_change)?;
    Ok(rows.collect::<rusqlite::Result<Vec<_>>>()?)
}

pub fn first_diff(a: &[String], b: &[String]) -> serde_json::Value {
    let sa: std::collections::BTreeSet<_> = a.iter().collect();
    let sb: std::collections::BTreeSet<_> = b.iter().collect();
    let only_a: Vec<_> = sa.difference(&sb).take(4).collect();
    let only_b: Vec<_> = sb.difference(&sa).take(4).collect();
    serde_json::json!({"only_left": only_a, "only_right": only_b, "left_len": a.len(), "right_len": b.len()})
}

// ---------------------------------------------------------------------------
// holdings model

#[derive(Clone, Debug, PartialEq, Eq)]
pub enum VState {
    Partial,
    Applied,
    Cleared,
}

#[derive(Clone, Debug)]
pub struct VerModel {
    pub state: VState,
    /// seq ranges received while partial
    pub ranges: RangeInclusiveSet<u64>,
    pub last_seq: u64,
    /// every last_seq announced by a delivered chunk of this version: a relay whose tail
    /// rows were overwritten announces a smaller one than the origin; which one the node
    /// goes by is not constrained by the properties
    pub last_seqs: std::collections::BTreeSet<u64>,
    /// changes delivered while partial, by seq (first delivery wins)
    pub changes: BTreeMap<u64, Change>,
    /// a chunk with a different last_seq was delivered later (relay after overwrite)
    pub last_seq_conflict: bool,
    /// the version is held (applied/cleared) but its buffered rows / seq rows are
    /// still on disk, waiting for the clear-buffer pass
    pub stale_rows: bool,
    /// applied (its changes are in the tables) but listed as partial again after a
    /// restart that found stale, non-covering seq rows (known finding)
    pub reverted: bool,
}

impl VerModel {
    pub fn covered(&self) -> bool {
        self.ranges.gaps(&(0..=self.last_seq)).next().is_none()
    }
    pub fn gaps(&self) -> Vec<(u64, u64)> {
        self.gaps_for(self.last_seq)
    }
    pub fn gaps_for(&self, last_seq: u64) -> Vec<(u64, u64)> {
        self.ranges
            .gaps(&(0..=last_seq))
            .map(|r| (*r.start(), *r.end()))
            .collect()
    }
    fn all_last_seqs(&self) -> Vec<u64> {
        let mut v: Vec<u64> = self.last_seqs.iter().copied().collect();
        if v.is_empty() {
            v.push(self.last_seq);
        }
        v
    }
    /// covered whichever announced last_seq the node goes by
    pub fn covered_all(&self) -> bool {
        !self.ranges.is_empty() && self.all_last_seqs().iter().all(|l| self.gaps_for(*l).is_empty())
    }
    /// covered for at least one announced last_seq
    pub fn covered_some(&self) -> bool {
        !self.ranges.is_empty() && self.all_last_seqs().iter().any(|l| self.gaps_for(*l).is_empty())
    }
    /// the missing-range lists a conforming node may advertise
    pub fn acceptable_gaps(&self) -> Vec<Vec<(u64, u64)>> {
        self.all_last_seqs().iter().map(|l| self.gaps_for(*l)).collect()
    }
}

#[derive(Clone, Debug, Default)]
pub struct ActorModel {
    pub versions: BTreeMap<u64, VerModel>,
}

impl ActorModel {
    pub fn head(&self) -> u64 {
        self.versions.keys().next_back().copied().unwrap_or(0)
    }
    pub fn needed(&self) -> RangeInclusiveSet<u64> {
        let mut s = RangeInclusiveSet::new();
        let h = self.head();
        if h > 0 {
            s.insert(1..=h);
            for v in self.versions.keys() {
                s.remove(*v..=*v);
            }
        }
        s
    }
    pub fn set_known(&mut self, v: u64, state: VState) {
        match self.versions.get_mut(&v) {
            Some(vm) if vm.state == VState::Partial => {
                // buffered chunks stay on disk until the clear pass
                vm.state = state;
                vm.stale_rows = true;
                vm.reverted = false;
            }
            _ => {
                self.versions.insert(
                    v,
                    VerModel {
                        state,
                        ranges: RangeInclusiveSet::new(),
                        last_seq: 0,
                        last_seqs: Default::default(),
                        changes: BTreeMap::new(),
                        last_seq_conflict: false,
                        stale_rows: false,
                        reverted: false,
                    },
                );
            }
        }
    }
}

/// What node n holds, per origin node index.
#[derive(Clone, Debug, Default)]
pub struct NodeModel {
    pub actors: BTreeMap<usize, ActorModel>,
}

pub fn harness<T>(msg: impl Into<String>) -> R<T> {
    Err(SimError::Harness(msg.into()))
}
