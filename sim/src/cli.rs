//! Command line: `corrosim run|replay|selftest ...` – one worker process.

use std::{
    collections::{BTreeMap, BTreeSet},
    path::{Path, PathBuf},
    time::{Duration, Instant},
};

use serde::{Deserialize, Serialize};
use serde_json::json;

use crate::{
    SimError,
    node::R,
    rng::derive,
    t1::{self, Event, RunCfg},
    trace::{ReplayFile, RunOutcome, Stats, Violation, load_known_findings},
};

fn arg(args: &[String], name: &str) -> Option<String> {
    args.iter()
        .position(|a| a == name)
        .and_then(|i| args.get(i + 1).cloned())
}

fn flag(args: &[String], name: &str) -> bool {
    args.iter().any(|a| a == name)
}

pub fn with_runtime<F, T>(f: F) -> T
where
    F: std::future::Future<Output = T>,
{
    let threads: usize = std::env::var("VERIF_TOKIO_WORKERS")
        .ok()
        .and_then(|s| s.parse().ok())
        .unwrap_or(2);
    let rt = tokio::runtime::Builder::new_multi_thread()
        .worker_threads(threads)
        .enable_all()
        .build()
        .expect("runtime");
    let out = rt.block_on(f);
    rt.shutdown_timeout(Duration::from_secs(3));
    out
}

#[derive(Serialize, Deserialize, Default)]
pub struct WorkerSummary {
    pub check: String,
    pub tier: String,
    pub seed: u64,
    pub runs: u64,
    pub nontrivial_hashes: BTreeSet<u64>,
    pub schedule_hashes: BTreeSet<u64>,
    pub state_hashes: BTreeSet<u64>,
    pub events: BTreeMap<String, u64>,
    pub faults: BTreeMap<String, u64>,
    pub probes: BTreeMap<String, u64>,
    pub steps: u64,
    pub oracle_checks: u64,
    pub converged_runs: u64,
    pub virtual_ms: u64,
    pub violations: Vec<serde_json::Value>,
    pub known: BTreeMap<String, u64>,
    pub samples: Vec<serde_json::Value>,
    pub wall_s: f64,
    pub harness_errors: Vec<String>,
    pub extra: BTreeMap<String, serde_json::Value>,
}

impl WorkerSummary {
    pub fn absorb(&mut self, st: &Stats) {
        for (k, v) in &st.events {
            *self.events.entry(k.clone()).or_default() += v;
        }
        for (k, v) in &st.faults {
            *self.faults.entry(k.clone()).or_default() += v;
        }
        for (k, v) in &st.probes {
            *self.probes.entry(k.clone()).or_default() += v;
        }
        self.steps += st.steps;
        self.oracle_checks += st.oracle_checks;
        self.virtual_ms += st.virtual_ms;
        if st.converged {
            self.converged_runs += 1;
        }
        if self.schedule_hashes.len() < 100_000 {
            self.schedule_hashes.insert(st.schedule_hash);
        }
        if st.nontrivial && self.nontrivial_hashes.len() < 100_000 {
            self.nontrivial_hashes.insert(st.schedule_hash);
        }
        for s in &st.states {
            if self.state_hashes.len() < 200_000 {
                self.state_hashes.insert(*s);
            }
        }
    }
}

/// A tolerated-finding candidate that the committed known-findings file does not list
/// (as open) is a violation.
pub fn effective(mut out: RunOutcome, known: &[crate::trace::KnownFinding]) -> RunOutcome {
    if out.violation.is_none() {
        if let Some(hit) = out.known.iter().find(|h| !known.iter().any(|k| &k.signature == *h)) {
            let (prop, class) = hit.split_once(':').unwrap_or(("C00", hit.as_str()));
            let mut v = Violation::new(
                prop,
                class,
                json!({"note": "condition tolerated by the model only when listed in known_findings.jsonl"}),
            );
            v.step = out.events.len();
            out.violation = Some(v);
        }
    }
    out
}

fn known_open(path: &str) -> Vec<crate::trace::KnownFinding> {
    load_known_findings(path).into_iter().filter(|k| k.status == "open").collect()
}

pub fn signature(v: &Violation) -> String {
    format!("{}:{}", v.property, v.class)
}

pub fn main() -> i32 {
    let args: Vec<String> = std::env::args().collect();
    if args.len() < 2 {
        eprintln!("usage: corrosim run|replay|selftest ...");
        return 2;
    }
    if std::env::var("VERIF_LOG").is_ok() {
        let _ = tracing_subscriber::fmt()
            .with_env_filter(tracing_subscriber::EnvFilter::new(
                std::env::var("VERIF_LOG").unwrap(),
            ))
            .with_writer(std::io::stderr)
            .try_init();
    }
    let res = match args[1].as_str() {
        "run" => cmd_run(&args),
        "replay" => cmd_replay(&args),
        "selftest" => cmd_selftest(&args),
        "t7child" => Ok(crate::t7::child_main(&args)),
        "t19reader" => {
            crate::t19::reader_main(args.get(2).map(|s| s.as_str()).unwrap_or(""));
            Ok(0)
        }
        other => Err(SimError::Harness(format!("unknown command {other}"))),
    };
    match res {
        Ok(code) => code,
        Err(e) => {
            eprintln!("HARNESS-ERROR {e}");
            2
        }
    }
}

fn tmp_base(args: &[String]) -> PathBuf {
    let p = arg(args, "--tmp")
        .or_else(|| std::env::var("VERIF_TMP").ok())
        .unwrap_or_else(|| "/verif/target/tmp".into());
    let p = PathBuf::from(p);
    let _ = std::fs::create_dir_all(&p);
    p
}

fn t5_env(tmp: &Path) -> R<&'static (tokio::runtime::Runtime, crate::t5::Harness)> {
    static T5: std::sync::OnceLock<(tokio::runtime::Runtime, crate::t5::Harness)> = std::sync::OnceLock::new();
    if let Some(x) = T5.get() {
        return Ok(x);
    }
    let rt = tokio::runtime::Builder::new_current_thread()
        .enable_all()
        .start_paused(true)
        .build()
        .map_err(|e| SimError::Harness(format!("runtime: {e}")))?;
    let dir = tmp.join(format!("t5-{}", std::process::id()));
    let h = rt.block_on(crate::t5::Harness::new(&dir))?;
    let _ = T5.set((rt, h));
    Ok(T5.get().unwrap())
}

/// One run of a tier, by seed.
pub fn run_one(tier: &str, check: &str, seed: u64, tmp: &Path, log: Option<&mut Vec<String>>) -> R<RunOutcome> {
    match tier {
        "t1" => with_runtime(t1::gen_::run_generated(seed, check, tmp, log)),
        "t8" => crate::t8::run_generated(seed),
        "t3" => {
            crate::t3::install_metrics();
            with_runtime(crate::t3::run_generated(seed, tmp))
        }
        "t7" => crate::t7::run_batch(seed, 0, 4000),
        "t4" => {
            let evs = crate::t4::generate_for(seed, check);
            with_runtime(crate::t4::run_events(seed, &evs, tmp, "g"))
        }
        "t12c" => {
            let script = crate::t12c::generate(seed);
            with_runtime(crate::t12c::run_script(seed, &script))
        }
        "t16" => {
            let (cfg, evs) = crate::t16::generate(seed);
            with_runtime(crate::t16::run_events(seed, cfg, &evs, tmp, "g"))
        }
        "t19" => {
            let evs = crate::t19::generate(seed);
            with_runtime(crate::t19::run_events(seed, &evs, tmp, "g"))
        }
        "t6" => {
            let evs = crate::t6::generate(seed);
            with_runtime(crate::t6::run_events(seed, &evs, tmp, "g"))
        }
        "t17" => {
            let (cfg, reqs) = crate::t17::generate(seed);
            with_runtime(crate::t17::run_reqs(seed, cfg, &reqs, tmp, "g"))
        }
        "t15" => {
            let evs = crate::t15::generate(seed);
            with_runtime(crate::t15::run_events(seed, &evs, tmp, "g"))
        }
        "t5p" => {
            // a fresh pool per run: a dispatcher wedged by one schedule must not leak into the next
            let (rt, _) = t5_env(tmp)?;
            let acts = crate::t5::generate_acts(seed);
            let dir = tmp.join(format!("t5p-{}-{seed:016x}", std::process::id()));
            let out = rt.block_on(async {
                let h = crate::t5::Harness::new(&dir).await?;
                crate::t5::execute_acts(&h, seed, &acts).await
            });
            let _ = std::fs::remove_dir_all(&dir);
            out
        }
        "t5" => {
            let (rt, h) = t5_env(tmp)?;
            let clients = crate::t5::generate(seed);
            rt.block_on(crate::t5::execute(h, seed, &clients))
        }
        other => Err(SimError::Harness(format!("unknown tier {other}"))),
    }
}

/// Re-execute a recorded event list.
pub fn run_list(
    tier: &str,
    seed: u64,
    config: &serde_json::Value,
    events: &[serde_json::Value],
    tmp: &Path,
    tag: &str,
    log: Option<&mut Vec<String>>,
) -> R<RunOutcome> {
    match tier {
        "t1" => {
            let cfg: RunCfg = serde_json::from_value(config.clone())?;
            let evs: Vec<Event> = events
                .iter()
                .map(|e| serde_json::from_value(e.clone()))
                .collect::<Result<_, _>>()?;
            with_runtime(t1::gen_::run_events(seed, cfg, &evs, tmp, tag, log))
        }
        "t3" => {
            crate::t3::install_metrics();
            let cfg: crate::t3::Cfg = serde_json::from_value(config.clone())?;
            let evs: Vec<crate::t3::Ev> = events
                .iter()
                .map(|e| serde_json::from_value(e.clone()))
                .collect::<Result<_, _>>()?;
            with_runtime(crate::t3::run_events(seed, cfg, &evs, tmp, tag))
        }
        "t4" => {
            let evs: Vec<crate::t4::Ev> = events
                .iter()
                .map(|e| serde_json::from_value(e.clone()))
                .collect::<Result<_, _>>()?;
            with_runtime(crate::t4::run_events(seed, &evs, tmp, tag))
        }
        "t12c" => {
            let conns: Vec<crate::t12c::Conn> = events
                .iter()
                .map(|e| serde_json::from_value(e.clone()))
                .collect::<Result<_, _>>()?;
            let script = crate::t12c::Script { snapshot_id: config.get("snapshot_id").and_then(|x| x.as_u64()).unwrap_or(0), conns };
            if script.conns.is_empty() {
                return Err(SimError::Harness("empty script".into()));
            }
            with_runtime(crate::t12c::run_script(seed, &script))
        }
        "t16" => {
            let cfg: crate::t16::Cfg = serde_json::from_value(config.clone())?;
            let evs: Vec<crate::t16::Ev> = events
                .iter()
                .map(|e| serde_json::from_value(e.clone()))
                .collect::<Result<_, _>>()?;
            with_runtime(crate::t16::run_events(seed, cfg, &evs, tmp, tag))
        }
        "t6" => {
            let evs: Vec<crate::t6::Ev> = events
                .iter()
                .map(|e| serde_json::from_value(e.clone()))
                .collect::<Result<_, _>>()?;
            with_runtime(crate::t6::run_events(seed, &evs, tmp, tag))
        }
        "t19" => {
            let evs: Vec<crate::t19::Ev> = events
                .iter()
                .map(|e| serde_json::from_value(e.clone()))
                .collect::<Result<_, _>>()?;
            with_runtime(crate::t19::run_events(seed, &evs, tmp, tag))
        }
        "t17" => {
            let cfg: crate::t17::Cfg = serde_json::from_value(config.clone())?;
            let reqs: Vec<crate::t17::Req> = events
                .iter()
                .map(|e| serde_json::from_value(e.clone()))
                .collect::<Result<_, _>>()?;
            with_runtime(crate::t17::run_reqs(seed, cfg, &reqs, tmp, tag))
        }
        "t15" => {
            let evs: Vec<crate::t15::Ev> = events
                .iter()
                .map(|e| serde_json::from_value(e.clone()))
                .collect::<Result<_, _>>()?;
            with_runtime(crate::t15::run_events(seed, &evs, tmp, tag))
        }
        "t7" => {
            let Some(k) = events.first().and_then(|e| e.get("case")).and_then(|c| c.as_u64()) else {
                return crate::t7::run_batch(seed, 0, 0);
            };
            crate::t7::run_batch(seed, k, 1)
        }
        "t5p" => {
            let (rt, _) = t5_env(tmp)?;
            let acts: Vec<crate::t5::Act> = events
                .iter()
                .map(|e| serde_json::from_value(e.clone()))
                .collect::<Result<_, _>>()?;
            let dir = tmp.join(format!("t5p-{}-{seed:016x}-{tag}", std::process::id()));
            let out = rt.block_on(async {
                let h = crate::t5::Harness::new(&dir).await?;
                crate::t5::execute_acts(&h, seed, &acts).await
            });
            let _ = std::fs::remove_dir_all(&dir);
            out
        }
        "t5" => {
            let (rt, h) = t5_env(tmp)?;
            let clients: Vec<crate::t5::Client> = events
                .iter()
                .map(|e| serde_json::from_value(e.clone()))
                .collect::<Result<_, _>>()?;
            rt.block_on(crate::t5::execute(h, seed, &clients))
        }
        "t8" => {
            let ops: Vec<crate::t8::Op> = events
                .iter()
                .map(|e| serde_json::from_value(e.clone()))
                .collect::<Result<_, _>>()?;
            crate::t8::execute(seed, &ops, config.clone())
        }
        other => Err(SimError::Harness(format!("unknown tier {other}"))),
    }
}

/// Delta debugging on the event list; keeps a candidate only if the same
/// (property, class) recurs.
pub fn minimise(
    tier: &str,
    out: &RunOutcome,
    tmp: &Path,
    budget: usize,
    known: &[crate::trace::KnownFinding],
) -> R<(Vec<serde_json::Value>, Violation, usize)> {
    let target = out.violation.clone().unwrap();
    let sig = signature(&target);
    let mut events = out.events.clone();
    let mut best_v = target;
    let mut execs = 0usize;
    let mut chunk = (events.len() / 2).max(1);
    while chunk >= 1 && execs < budget {
        let mut i = 0;
        let mut removed_any = false;
        while i < events.len() && execs < budget {
            let end = (i + chunk).min(events.len());
            let mut cand = events.clone();
            cand.drain(i..end);
            execs += 1;
            let r = run_list(tier, out.seed, &out.config, &cand, tmp, "m", None).map(|o| effective(o, known));
            match r {
                Ok(o) if o.violation.as_ref().map(signature).as_deref() == Some(sig.as_str()) => {
                    // the run stops at the violation: drop the unexecuted tail too
                    events = o.events.clone();
                    best_v = o.violation.unwrap();
                    removed_any = true;
                }
                _ => {
                    i = end;
                }
            }
        }
        if chunk == 1 && !removed_any {
            break;
        }
        if !removed_any || chunk > 1 {
            chunk = if chunk == 1 { 1 } else { chunk / 2 };
        }
    }
    Ok((events, best_v, execs))
}

fn cmd_run(args: &[String]) -> R<i32> {
    let tier = arg(args, "--tier").unwrap_or("t1".into());
    let check = arg(args, "--check").unwrap_or("C01".into());
    let seed: u64 = arg(args, "--seed").and_then(|s| s.parse().ok()).unwrap_or(1);
    let start: u64 = arg(args, "--start").and_then(|s| s.parse().ok()).unwrap_or(0);
    let stride: u64 = arg(args, "--stride").and_then(|s| s.parse().ok()).unwrap_or(1);
    let count: u64 = arg(args, "--count").and_then(|s| s.parse().ok()).unwrap_or(10);
    let secs: f64 = arg(args, "--secs").and_then(|s| s.parse().ok()).unwrap_or(1e9);
    let out_path = arg(args, "--out");
    let replays = PathBuf::from(arg(args, "--replays").unwrap_or("/verif/replays".into()));
    let known_path = arg(args, "--known").unwrap_or("/verif/known_findings.jsonl".into());
    let max_viol: usize = arg(args, "--max-violations").and_then(|s| s.parse().ok()).unwrap_or(3);
    let tmp = tmp_base(args);
    let known: Vec<_> = load_known_findings(&known_path)
        .into_iter()
        .filter(|k| k.status == "open")
        .collect();
    let t0 = Instant::now();
    let mut sum = WorkerSummary {
        check: check.clone(),
        tier: tier.clone(),
        seed,
        ..Default::default()
    };
    let mut seen_sigs: BTreeSet<String> = BTreeSet::new();
    let mut i = start;
    let mut done = 0;
    while done < count && t0.elapsed().as_secs_f64() < secs {
        // --exact <run seed>: one run with this very run seed (as printed in reports)
        let run_seed = match arg(args, "--exact").and_then(|s| s.parse::<u64>().ok()) {
            Some(x) => x,
            None => derive(seed, &check, i),
        };
        i += stride;
        done += 1;
        let out = match run_one(&tier, &check, run_seed, &tmp, None) {
            Ok(o) => o,
            Err(e) => {
                sum.harness_errors.push(format!("seed {run_seed}: {e}"));
                if sum.harness_errors.len() > 3 {
                    break;
                }
                continue;
            }
        };
        sum.runs += 1;
        sum.absorb(&out.stats);
        if sum.samples.len() < 2 && out.stats.nontrivial {
            sum.samples.push(json!({
                "seed": out.seed,
                "config": out.config,
                "events_total": out.events.len(),
                "first_events": out.events.iter().take(25).collect::<Vec<_>>(),
            }));
        }
        for hit in &out.known {
            if let Some(k) = known.iter().find(|k| &k.signature == hit) {
                *sum.known.entry(format!("property={} {}", k.property, k.what)).or_default() += 1;
            }
        }
        let out = effective(out, &known);
        if let Some(v) = &out.violation {
            let sig = signature(v);
            if let Some(k) = known.iter().find(|k| k.signature == sig) {
                *sum.known.entry(format!("property={} {}", k.property, k.what)).or_default() += 1;
                continue;
            }
            if seen_sigs.contains(&sig) && sum.violations.len() >= 1 {
                // same class again: count, do not minimise again
                sum.violations.push(json!({"seed": out.seed, "violation": v, "replay": null}));
                if sum.violations.len() >= 20 {
                    break;
                }
                continue;
            }
            // a violation must replay exactly; otherwise it is a harness problem, never a verdict
            let again = effective(run_list(&tier, out.seed, &out.config, &out.events, &tmp, "c", None)?, &known);
            if again.violation.as_ref().map(signature).as_deref() != Some(sig.as_str()) {
                sum.harness_errors.push(format!(
                    "FLAKY-REPLAY seed {} signature {} did not reproduce (got {:?}); first time: {}",
                    out.seed,
                    sig,
                    again.violation.as_ref().map(signature),
                    serde_json::to_string(&v.detail).unwrap_or_default().chars().take(700).collect::<String>()
                ));
                continue;
            }
            seen_sigs.insert(sig.clone());
            let (events, vmin, execs) = minimise(&tier, &out, &tmp, 120, &known)?;
            let _ = std::fs::create_dir_all(&replays);
            let path = replays.join(format!("{}-{:016x}.json", v.property, out.seed));
            let rf = ReplayFile {
                property: v.property.clone(),
                tier: tier.clone(),
                check: check.clone(),
                seed: out.seed,
                config: out.config.clone(),
                events,
                violation: vmin.clone(),
                minimised: true,
                original_events: out.events.len(),
            };
            std::fs::write(&path, serde_json::to_string_pretty(&rf)?)?;
            sum.violations.push(json!({
                "seed": out.seed, "violation": vmin, "replay": path.display().to_string(),
                "minimise_execs": execs, "events": rf.events.len(), "original_events": out.events.len()
            }));
            if seen_sigs.len() >= max_viol {
                break;
            }
        }
    }
    sum.wall_s = t0.elapsed().as_secs_f64();
    let code = if !sum.harness_errors.is_empty() {
        2
    } else if sum.violations.is_empty() {
        0
    } else {
        1
    };
    let js = serde_json::to_string(&sum)?;
    match out_path {
        Some(p) => std::fs::write(p, js)?,
        None => println!("{js}"),
    }
    Ok(code)
}

fn cmd_replay(args: &[String]) -> R<i32> {
    let file = arg(args, "--file").ok_or_else(|| SimError::Harness("--file required".into()))?;
    let tmp = tmp_base(args);
    let rf: ReplayFile = serde_json::from_str(&std::fs::read_to_string(&file)?)?;
    let mut log = vec![];
    let known_path = arg(args, "--known").unwrap_or("/verif/known_findings.jsonl".into());
    let out = effective(
        run_list(&rf.tier, rf.seed, &rf.config, &rf.events, &tmp, "r", Some(&mut log))?,
        &known_open(&known_path),
    );
    if flag(args, "--log") {
        for l in &log {
            println!("{l}");
        }
    }
    match out.violation {
        Some(v) => {
            println!("{}", serde_json::to_string_pretty(&v)?);
            if signature(&v) == signature(&rf.violation) {
                println!("VIOLATION property={} replay={}", v.property, file);
                Ok(1)
            } else {
                println!(
                    "VIOLATION property={} replay={} (class differs from recorded: {} vs {})",
                    v.property,
                    file,
                    signature(&v),
                    signature(&rf.violation)
                );
                Ok(1)
            }
        }
        None => {
            println!("replay of {file}: no violation (recorded: {})", signature(&rf.violation));
            Ok(0)
        }
    }
}

/// Determinism proof: every seed twice, canonical logs must be identical.
fn cmd_selftest(args: &[String]) -> R<i32> {
    let tier = arg(args, "--tier").unwrap_or("t1".into());
    let check = arg(args, "--check").unwrap_or("C01".into());
    let seed: u64 = arg(args, "--seed").and_then(|s| s.parse().ok()).unwrap_or(1);
    let start: u64 = arg(args, "--start").and_then(|s| s.parse().ok()).unwrap_or(0);
    let count: u64 = arg(args, "--count").and_then(|s| s.parse().ok()).unwrap_or(10);
    let tmp = tmp_base(args);
    let mut bad = 0;
    for i in start..start + count {
        let run_seed = derive(seed, &check, i);
        let mut l1 = vec![];
        let mut l2 = vec![];
        let a = run_one(&tier, &check, run_seed, &tmp, Some(&mut l1))?;
        let b = run_one(&tier, &check, run_seed, &tmp, Some(&mut l2))?;
        let same_events = a.events == b.events;
        if a.log_digest != b.log_digest || !same_events {
            bad += 1;
            println!("NONDETERMINISTIC seed={run_seed} events_equal={same_events}");
            for (k, (x, y)) in l1.iter().zip(l2.iter()).enumerate() {
                if x != y {
                    println!("  first difference at line {k}:\n   A: {x}\n   B: {y}");
                    break;
                }
            }
            if l1.len() != l2.len() {
                println!("  log lengths {} vs {}", l1.len(), l2.len());
            }
        }
        // generate == recorded list: replaying the list gives the same digest
        let c = run_list(&tier, run_seed, &a.config, &a.events, &tmp, "s", None)?;
        if c.log_digest != a.log_digest {
            bad += 1;
            println!("REPLAY-DIFFERS seed={run_seed}");
        }
    }
    println!("selftest: {count} seeds, {bad} nondeterministic");
    Ok(if bad == 0 { 0 } else { 2 })
}
