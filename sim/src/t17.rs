//! HTTP tier (C17): the API router exactly as served (captured by a guarded hook, called
//! in-process), driven by seeded request sequences: every route x method x Authorization
//! shape, and hostile SQL on the read endpoints; after every request the database and
//! bookkeeping digest of the node is compared with the one before.

use std::{collections::BTreeMap, path::Path};

use axum::{body::Body, extract::ConnectInfo};
use http_body_util::BodyExt;
use rusqlite::types::Value;
use serde::{Deserialize, Serialize};
use serde_json::json;
use tower::ServiceExt;

use crate::{
    SimError,
    model::{SCHEMA_T1, render},
    node::{Knobs, Node, R, seeded_actor},
    rng::Rng,
    trace::{RunOutcome, Stats, Violation, fnv},
};

const TOKEN: &str = "s3cr3t-Tok_en.42";

#[derive(Serialize, Deserialize, Clone, Debug, PartialEq)]
pub struct Cfg {
    /// is a token configured on the node?
    pub token: bool,
}

#[derive(Serialize, Deserialize, Clone, Debug, PartialEq)]
pub struct Req {
    pub method: String,
    pub path: String,
    /// Authorization header value (None = header missing)
    pub auth: Option<String>,
    pub body: String,
    /// what the generator meant (for reporting and oracle selection)
    pub kind: String,
}

pub const ROUTES: &[(&str, &str)] = &[
    ("POST", "/v1/transactions"),
    ("POST", "/v1/queries"),
    ("POST", "/v1/subscriptions"),
    ("POST", "/v1/updates/t1"),
    ("GET", "/v1/subscriptions/00000000-0000-0000-0000-000000000001"),
    ("POST", "/v1/migrations"),
    ("POST", "/v1/table_stats"),
];

/// Statements that must not change anything when sent to a read endpoint.
pub const HOSTILE_SQL: &[&str] = &[
    "INSERT INTO t1 (id, a) VALUES (900, 'x')",
    "UPDATE t1 SET a = 'pwned'",
    "DELETE FROM t1",
    "REPLACE INTO t1 (id, a) VALUES (1, 'r')",
    "INSERT INTO t1 (id, a) VALUES (901, 'x') RETURNING id",
    "DELETE FROM t1 RETURNING id",
    "CREATE TABLE evil (id INTEGER PRIMARY KEY)",
    "DROP TABLE t1",
    "ALTER TABLE t1 ADD COLUMN zz TEXT",
    "CREATE INDEX evil_idx ON t1 (a)",
    "CREATE TEMP TABLE tt (x)",
    "PRAGMA user_version = 77",
    "PRAGMA application_id = 77",
    "PRAGMA journal_mode = DELETE",
    "PRAGMA writable_schema = 1",
    "PRAGMA wal_checkpoint(TRUNCATE)",
    "PRAGMA auto_vacuum = FULL",
    "ATTACH DATABASE '{dir}/attached.db' AS evil",
    "VACUUM INTO '{dir}/copy.db'",
    "VACUUM",
    "SELECT 1; DELETE FROM t1",
    "SELECT 1; DROP TABLE t1;",
    "WITH x AS (SELECT 1) DELETE FROM t1",
    "WITH x AS (SELECT 900 AS id) INSERT INTO t1 (id, a) SELECT id, 'cte' FROM x",
    "SELECT crsql_set_db_version(crsql_site_id(), 999)",
    "SELECT crsql_begin_alter('t1')",
    "SELECT crsql_config_set('merge-equal-values', 0)",
    "SELECT crsql_as_table('t1')",
    "SELECT crsql_commit_alter('t1')",
    "SELECT crsql_as_crr('t1')",
    "SELECT crsql_finalize()",
    "SELECT crsql_next_db_version()",
    "SELECT crsql_increment_and_get_seq()",
    "INSERT INTO crsql_changes (\"table\", pk, cid, val, col_version, db_version, site_id, cl, seq) VALUES ('t1', x'010901', 'a', 'z', 99, 99, x'00112233445566778899aabbccddeeff', 1, 0)",
    "UPDATE __corro_state SET value = 5",
    "DELETE FROM __corro_bookkeeping_gaps",
    "BEGIN IMMEDIATE",
    "COMMIT",
    "SAVEPOINT s",
    "REINDEX",
    "ANALYZE",
    "SELECT id, a FROM t1",
    "SELECT count(*) FROM t1 WHERE a != ''",
];

fn auth_shapes(r: &mut Rng) -> (Option<String>, &'static str) {
    let t = TOKEN;
    match r.below(12) {
        0 => (None, "missing"),
        1 => (Some(format!("Basic {t}")), "wrong-scheme"),
        2 => (Some("Bearer wrong-token".into()), "wrong-token"),
        3 => (Some(format!("Bearer {}", &t[..t.len() - 1])), "prefix-of-token"),
        4 => (Some(format!("Bearer {t}x")), "token-plus-suffix"),
        5 => (Some(format!("Bearer {}", t.to_uppercase())), "token-other-case"),
        6 => (Some("Bearer ".into()), "empty-token"),
        7 => (Some(t.to_string()), "token-without-scheme"),
        8 => (Some(format!("Bearer {t} extra")), "token-plus-word"),
        9 => (Some(format!("Token {t}")), "wrong-scheme"),
        _ => (Some(format!("Bearer {t}")), "right"),
    }
}

pub fn generate(seed: u64) -> (Cfg, Vec<Req>) {
    let mut r = Rng::new(seed).fork("t17");
    let cfg = Cfg { token: r.chance(0.7) };
    let n = r.range(6, 30);
    let mut out = vec![];
    let mut wrote = 0;
    for _ in 0..n {
        let (rm, path) = *r.pick(ROUTES);
        let method = if r.chance(0.8) { rm.to_string() } else { r.pick(&["GET", "POST", "PUT", "DELETE", "PATCH", "HEAD", "OPTIONS"]).to_string() };
        let (auth, shape) = auth_shapes(&mut r);
        // bodies: something that would act if it got through
        let (body, what) = match path {
            "/v1/transactions" => {
                wrote += 1;
                (json!([[format!("INSERT INTO t1 (id, a, b) VALUES ({}, 'w{wrote}', 'b') ON CONFLICT (id) DO UPDATE SET a = excluded.a", 100 + r.below(5))]]).to_string(), "write")
            }
            "/v1/queries" | "/v1/subscriptions" => {
                let sql = r.pick(HOSTILE_SQL).to_string();
                (if r.chance(0.5) { json!(sql).to_string() } else { json!([sql, []]).to_string() }, "read-endpoint")
            }
            "/v1/migrations" => (json!([format!("CREATE TABLE m{} (id INTEGER NOT NULL PRIMARY KEY, x TEXT);", r.below(3))]).to_string(), "schema"),
            "/v1/table_stats" => (json!({"tables": ["t1"]}).to_string(), "stats"),
            _ => (String::new(), "other"),
        };
        out.push(Req { method, path: path.to_string(), auth, body, kind: format!("{what}/{shape}") });
    }
    (cfg, out)
}

#[derive(PartialEq, Clone, Debug)]
struct Digest {
    parts: BTreeMap<String, Vec<String>>,
}

async fn digest(n: &Node) -> R<Digest> {
    // a fresh plain connection: pooled read connections carry connection-local state that a
    // hostile statement can disturb (that is not the node's database), and the extension is not
    // needed: its clock / version tables are ordinary tables
    let conn = rusqlite::Connection::open_with_flags(n.dir.join("corrosion.db"), rusqlite::OpenFlags::SQLITE_OPEN_READ_ONLY)?;
    let mut parts: BTreeMap<String, Vec<String>> = BTreeMap::new();
    let q = |sql: &str| -> R<Vec<String>> {
        let mut st = conn.prepare(sql)?;
        let nc = st.column_count();
        let mut rows = st.query([])?;
        let mut out = vec![];
        while let Some(r) = rows.next()? {
            let cells: Vec<String> = (0..nc).map(|i| r.get::<_, Value>(i).map(|v| render(&v))).collect::<rusqlite::Result<_>>()?;
            out.push(cells.join("|"));
        }
        Ok(out)
    };
    parts.insert("schema".into(), q("SELECT type, name, tbl_name, COALESCE(sql, '') FROM sqlite_schema ORDER BY 1, 2")?);
    let tables: Vec<String> = q("SELECT name FROM sqlite_schema WHERE type = 'table' AND name NOT LIKE 'sqlite%' AND name NOT LIKE '\\_\\_corro\\_members' ESCAPE '\\' ORDER BY 1")?;
    for t in tables {
        let t = t.trim_matches('\'').to_string();
        // virtual / shadow tables of the extension are covered through crsql_changes
        if t == "crsql_changes" {
            continue;
        }
        match q(&format!("SELECT * FROM \"{t}\" ORDER BY 1, 2")) {
            Ok(rows) => {
                parts.insert(format!("table:{t}"), rows);
            }
            Err(_) => {
                parts.insert(format!("table:{t}"), q(&format!("SELECT * FROM \"{t}\""))?);
            }
        }
    }
    for p in ["user_version", "application_id", "journal_mode", "auto_vacuum", "schema_version"] {
        parts.insert(format!("pragma:{p}"), q(&format!("PRAGMA {p}"))?);
    }
    // (connection-local: which pooled connection answers is not the node's state; 'temp' appears
    // on a connection as soon as a statement mentioning the temp schema was compiled on it)
    let _ = q("SELECT name FROM pragma_database_list ORDER BY 1")?;
    let mut files: Vec<String> = std::fs::read_dir(&n.dir)?
        .filter_map(|e| e.ok())
        .map(|e| e.file_name().to_string_lossy().to_string())
        .filter(|f| !f.ends_with("-wal") && !f.ends_with("-shm") && f != "subscriptions" && !f.ends_with(".sock"))
        .collect();
    files.sort();
    parts.insert("files".into(), files);
    let head = n.agent.booked().read::<&str, _>("sim", None).await.last().map(|v| v.0).unwrap_or(0);
    parts.insert("own-head".into(), vec![head.to_string()]);
    let st = n.sync_state().await;
    let mut heads: Vec<String> = st.heads.iter().map(|(a, v)| format!("{a}:{}", v.0)).collect();
    heads.sort();
    parts.insert("sync-heads".into(), heads);
    parts.insert("sync-need".into(), vec![format!("{}|{}", st.need.len(), st.partial_need.len())]);
    let schema: Vec<String> = {
        let s = n.agent.schema().read();
        let mut v: Vec<String> = s.tables.iter().map(|(name, t)| format!("{name}:{}:{}", t.columns.len(), t.indexes.len())).collect();
        v.sort();
        v
    };
    parts.insert("in-memory-schema".into(), schema);
    Ok(Digest { parts })
}

fn diff(a: &Digest, b: &Digest) -> serde_json::Value {
    let mut out = serde_json::Map::new();
    for (k, v) in a.parts.iter() {
        let w = b.parts.get(k).cloned().unwrap_or_default();
        if *v != w {
            out.insert(k.clone(), crate::model::first_diff(v, &w));
        }
    }
    for k in b.parts.keys() {
        if !a.parts.contains_key(k) {
            out.insert(k.clone(), json!("appeared"));
        }
    }
    serde_json::Value::Object(out)
}

fn vio(class: &str, detail: serde_json::Value) -> Violation {
    Violation::new("C17", class, detail)
}

pub async fn run_reqs(seed: u64, cfg: Cfg, reqs: &[Req], base: &Path, tag: &str) -> R<RunOutcome> {
    let dir = base.join(format!("t17-{}-{seed:016x}-{tag}", std::process::id()));
    let _ = std::fs::remove_dir_all(&dir);
    std::fs::create_dir_all(&dir)?;
    let actor = seeded_actor(seed, 0);
    let mut knobs = Knobs::default();
    if cfg.token {
        knobs.api_token = Some(TOKEN.to_string());
    }
    let mut node = Node::boot(0, dir.join("n0"), actor, knobs).await?;
    let (st, resp) = node.schema(SCHEMA_T1.iter().map(|x| x.to_string()).collect()).await;
    if st != 200 {
        return Err(SimError::Harness(format!("schema: {:?}", resp.results)));
    }
    // some data (through the handler function, not the router)
    let (st, _) = node
        .write(
            vec![
                crate::node::stmt("INSERT INTO t1 (id, a, b) VALUES (1, 'one', 'b1'), (2, 'two', NULL)", vec![]),
                crate::node::stmt("INSERT INTO t3 (id, c1, c2, n1) VALUES (1, 'x', 'y', 3)", vec![]),
            ],
            None,
        )
        .await?;
    if st != 200 {
        return Err(SimError::Harness("seed data".into()));
    }
    let _ = std::mem::take(&mut node.outbox);
    let router = klukai_agent::agent::verif::api_router(actor).ok_or_else(|| SimError::Harness("api router was not captured".into()))?;
    let mut stats = Stats::default();
    let mut violation = None;
    let mut done = vec![];
    let mut log = vec![];
    let node_dir = node.dir.display().to_string();
    for (i, rq) in reqs.iter().enumerate() {
        done.push(rq.clone());
        stats.steps += 1;
        stats.ev(&format!("{} {}", rq.method, rq.path.split('/').take(3).collect::<Vec<_>>().join("/")));
        let before = digest(&node).await?;
        let subs_before = node.agent.subs_manager().get_handles().len();
        let body = rq.body.replace("{dir}", &node_dir);
        let mut b = http::Request::builder().method(rq.method.as_str()).uri(rq.path.as_str()).header("content-type", "application/json");
        if let Some(a) = &rq.auth {
            b = b.header("authorization", a.as_str());
        }
        let mut req = b.body(Body::from(body.clone())).map_err(|e| SimError::Harness(format!("request: {e}")))?;
        req.extensions_mut().insert(ConnectInfo::<std::net::SocketAddr>("127.0.0.1:5555".parse().unwrap()));
        let resp = router.clone().oneshot(req).await.map_err(|e| SimError::Harness(format!("router: {e:?}")))?;
        let status = resp.status().as_u16();
        // read (some of) the body so that streaming handlers run; bounded
        let mut rb = resp.into_body();
        let mut got = 0usize;
        for _ in 0..50 {
            match tokio::time::timeout(std::time::Duration::from_millis(40), rb.frame()).await {
                Ok(Some(Ok(f))) => {
                    if let Ok(d) = f.into_data() {
                        got += d.len();
                    }
                }
                _ => break,
            }
        }
        drop(rb);
        node.quiesce().await?;
        let _ = std::mem::take(&mut node.outbox);
        let after = digest(&node).await?;
        let subs_after = node.agent.subs_manager().get_handles().len();
        stats.oracle_checks += 1;
        let _ = got; // (how much of a streaming body arrives within the read window is timing)
        log.push(format!("{} {} [{}] -> {status}", rq.method, rq.path, rq.kind));
        let right_auth = rq.auth.as_deref() == Some(&format!("Bearer {TOKEN}"));
        let shape = rq.kind.split('/').nth(1).unwrap_or("");
        if cfg.token && !right_auth {
            stats.fault(&format!("auth:{shape}"));
            if !(400..500).contains(&status) {
                violation = Some(vio("request-without-the-token-not-rejected", json!({"request": rq, "status": status})));
            } else if after != before {
                violation = Some(vio("rejected-request-had-an-effect", json!({"request": rq, "status": status, "changed": diff(&before, &after)})));
            } else if subs_after != subs_before {
                violation = Some(vio("rejected-request-had-an-effect", json!({"request": rq, "status": status, "subscriptions": [subs_before, subs_after]})));
            }
            stats.probe("c17.unauthorised-checked");
        } else {
            // authorised (or open): the middleware must let it through
            if status == 401 {
                violation = Some(vio("authorised-request-rejected", json!({"request": rq, "status": status, "token_configured": cfg.token})));
            }
            stats.probe(if cfg.token { "c17.authorised-with-token" } else { "c17.open-api" });
            let read_endpoint = (rq.path == "/v1/queries" || rq.path == "/v1/subscriptions") && rq.method == "POST";
            if read_endpoint {
                stats.fault("hostile-sql-on-read-endpoint");
                stats.probe(&format!("c17.read-endpoint.status-{}", status / 100));
                if let Ok(v) = serde_json::from_str::<serde_json::Value>(&rq.body) {
                    let sql = v.as_str().map(|s| s.to_string()).or_else(|| v.get(0).and_then(|x| x.as_str()).map(|s| s.to_string())).unwrap_or_default();
                    let ep = if rq.path == "/v1/queries" { "q" } else { "s" };
                    stats.probe(&format!("c17.sql[{ep}] {status} {}", sql.chars().take(48).collect::<String>()));
                }
                if after != before {
                    violation = violation.or(Some(vio("read-endpoint-changed-the-database", json!({"request": rq, "status": status, "changed": diff(&before, &after)}))));
                }
            }
        }
        if let Some(v) = violation.as_mut() {
            v.step = i + 1;
            break;
        }
    }
    let mut sh = 0xcbf2_9ce4_8422_2325;
    for r in &done {
        fnv(&mut sh, format!("{} {} {}", r.method, r.path, r.kind).as_bytes());
    }
    stats.schedule_hash = sh;
    stats.nontrivial = stats.faults.values().sum::<u64>() > 0;
    stats.converged = violation.is_none();
    let mut h = 0xcbf2_9ce4_8422_2325;
    for l in &log {
        if std::env::var_os("VERIF_TRACE").is_some() {
            eprintln!("LOG {l}");
        }
        fnv(&mut h, l.as_bytes());
    }
    node.trip().await;
    drop(node);
    let _ = std::fs::remove_dir_all(&dir);
    Ok(RunOutcome {
        seed,
        tier: "t17".into(),
        config: serde_json::to_value(&cfg).unwrap(),
        events: done.iter().map(|e| serde_json::to_value(e).unwrap()).collect(),
        violation,
        known: vec![],
        stats,
        log_digest: h,
    })
}
