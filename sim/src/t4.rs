//! T4: subscription tier (C11, C14; C12/C13 build on it). One subscriber node
//! and one peer node, both real. Subscriptions are created through the real
//! `api_v1_subs` handler, table listeners through `api_v1_updates`; the matcher /
//! updates loops only process candidates when the simulator forces a flush
//! (their 600 ms batching deadline is stretched to one hour by a guarded hook and
//! a flush is a 1000-candidate sentinel batch sent through the public channel).

use std::{
    collections::{BTreeMap, BTreeSet},
    path::Path,
    time::{Duration, Instant},
};

use axum::{Extension, Json, extract::Query};
use bytes::Bytes;
use http_body_util::BodyExt;
use indexmap::IndexMap;
use klukai_agent::api::public::{pubsub::api_v1_subs, update::api_v1_updates};
use klukai_types::{
    api::{ChangeId, NotifyEvent, QueryEvent, SqliteValue, Statement, TableName, sqlite::ChangeType},
    broadcast::{ChangeSource, ChangeV1},
    pubsub::{MatchCandidates, MatcherHandle, pack_columns},
    updates::Handle,
    verif,
};
use serde::{Deserialize, Serialize};
use serde_json::json;

use crate::{
    SimError,
    model::{SCHEMA_T1, Stmt, render_sv},
    node::{Knobs, Node, R, seeded_actor, snapshot_dir, stmt},
    rng::Rng,
    t1::{RunCfg, gen_::Gen},
    trace::{RunOutcome, Stats, Violation, fnv},
};

type Body = http_body_util::combinators::UnsyncBoxBody<Bytes, std::io::Error>;

pub const TEMPLATES: &[(&str, &str, &str)] = &[
    // (class, first table, sql)
    ("single", "t1", "SELECT id, a, b FROM t1"),
    ("single-filter", "t1", "SELECT id, a FROM t1 WHERE id >= 2"),
    ("single-expr", "t3", "SELECT id, c1 || '-' || c2 AS cc, n1 + 1 AS n FROM t3 WHERE n1 >= 0"),
    ("composite-key", "t2", "SELECT k1, k2, v FROM t2 WHERE w > 3"),
    ("non-key-filter", "t1", "SELECT id, b FROM t1 WHERE a != '' AND b IS NOT NULL"),
    ("inner-join", "t1", "SELECT t1.id, t1.a, t3.c1 FROM t1 INNER JOIN t3 ON t1.id = t3.id"),
    ("inner-join-alias", "t1", "SELECT x.id, x.b, y.c2, y.n1 FROM t1 AS x JOIN t3 AS y ON x.id = y.id WHERE y.n1 > 2"),
    ("outer-join", "t1", "SELECT t1.id, t1.a, t3.c1 FROM t1 LEFT JOIN t3 ON t1.id = t3.id"),
    ("outer-join-3", "t1", "SELECT t1.id, t1.a, t3.c1, t2.v FROM t1 LEFT JOIN t3 ON t1.id = t3.id LEFT JOIN t2 ON t2.w = t1.id"),
    ("key-only", "t1", "SELECT id FROM t1 WHERE id > 0"),
];

#[derive(Serialize, Deserialize, Clone, Debug, PartialEq)]
#[serde(tag = "op")]
pub enum Ev {
    Subscribe { template: usize },
    Listen { table: String },
    /// local transaction on the subscriber node (0) or on the peer (1)
    Write { node: usize, stmts: Vec<Stmt> },
    /// deliver the peer's outstanding changesets to the subscriber
    Deliver { mode: u8 },
    /// run the background applies scheduled on the subscriber
    Apply,
    Flush,
    /// announcements (and subscription / update matching) of local transactions committed
    /// from now on are held back ...
    ArmBcast,
    /// ... later transactions announce normally again, the held ones stay held ...
    DisarmBcast,
    /// ... until released: their candidates reach the loops after those of later transactions
    ReleaseBcast,
    /// a further client attaches to subscription `sub` (from scratch, skipping rows, or resuming
    /// `back` changes before the newest one); the simulator does not read yet
    Attach { sub: usize, mode: u8, back: u64 },
    /// the slow client reads what it can (up to `n` events; 0 = until caught up)
    ClientRead { client: usize, n: usize },
    /// a client attaches while subscription `sub` is in the middle of a batch: its events are
    /// already out (to the subscribers that existed), its transaction is not committed yet
    AttachMidBatch { sub: usize, mode: u8 },
    /// a client attaches (and finishes its catch-up) in the instant after subscription `sub`
    /// handed out the first event of a batch and before it did anything else
    AttachAfterEvent { sub: usize },
    /// the subscriber node stops and starts again (C13). kind: 0 = graceful (production
    /// order: tripwire, tasks, `late` transaction while subscriptions drain, drop_handles),
    /// 1 = killed at this instant, 2 = killed in the middle of a graceful shutdown (after the
    /// tripwire, before the subscriptions finished), 3 = killed right after a new
    /// subscription `template` was requested (creation / initial query in flight),
    /// 4 = graceful stop, start, transaction `late` and kill before the restored subscriptions
    /// got to run (their tasks are held at the start of run_restore)
    RestartS { kind: u8, late: Option<Vec<Stmt>>, template: usize },
    /// every listener of subscription `sub` has been gone for MAX_UNSUB_TIME: the calls
    /// `process_sub_channel` makes then (remove it from the manager, cancel it)
    Expire { sub: usize },
}

struct Sub {
    template: usize,
    sql: String,
    id: uuid::Uuid,
    body: Body,
    pending: Vec<u8>,
    rows: BTreeMap<u64, Vec<SqliteValue>>,
    last_change: u64,
    events_since_flush: u64,
    last_result: Vec<String>,
    dead: bool,
    /// cancelled by the node itself (no listener for too long); implies `dead`
    cancelled: bool,
}

struct Client {
    sub: usize,
    mode: u8,
    rx: tokio::sync::mpsc::Receiver<(Bytes, klukai_types::api::QueryEventMeta)>,
    rows: BTreeMap<u64, Vec<SqliteValue>>,
    /// change id the stream must continue from (None until known)
    expect_next: Option<u64>,
    /// newest change id of the subscription when the client attached
    attach_max: u64,
    got_eoq: bool,
    last: u64,
    ended: bool,
    events: u64,
}

struct Listener {
    table: String,
    pk_cols: usize,
    body: Body,
    pending: Vec<u8>,
    /// notifications since the last flush: key -> kinds in order
    seen: Vec<(Vec<SqliteValue>, ChangeType)>,
    /// keys changed by committed transactions since attach / last flush
    changed: BTreeSet<String>,
}

struct World {
    s: Node,
    p: Node,
    p_outbox: Vec<ChangeV1>,
    subs: Vec<Sub>,
    listeners: Vec<Listener>,
    clients: Vec<Client>,
    stats: Stats,
    log: Vec<String>,
    known_hits: Vec<String>,
    dir: std::path::PathBuf,
    seed: u64,
    incarnation: u32,
}

fn vio(prop: &str, class: &str, detail: serde_json::Value) -> Violation {
    Violation::new(prop, class, detail)
}

fn sentinel(table: &str) -> MatchCandidates {
    let mut pks: IndexMap<Vec<u8>, i64> = IndexMap::new();
    for i in 0..1000i64 {
        let key = match table {
            "t2" => vec![SqliteValue::Blob(vec![0xEE, (i >> 8) as u8, i as u8].into()), SqliteValue::Text("zz".into())],
            _ => vec![SqliteValue::Integer(50_000_000 + i)],
        };
        pks.insert(pack_columns(&key).unwrap(), 1);
    }
    let mut c = MatchCandidates::new();
    c.insert(TableName(table.into()), pks);
    c
}

fn is_sentinel_key(k: &[SqliteValue]) -> bool {
    match k.first() {
        Some(SqliteValue::Integer(i)) => *i >= 50_000_000,
        Some(SqliteValue::Blob(b)) => b.first() == Some(&0xEE),
        _ => false,
    }
}

async fn read_lines(body: &mut Body, pending: &mut Vec<u8>, wait: Duration) -> R<Vec<Vec<u8>>> {
    let mut out = vec![];
    match tokio::time::timeout(wait, body.frame()).await {
        Ok(Some(Ok(frame))) => {
            if let Ok(data) = frame.into_data() {
                pending.extend_from_slice(&data);
            }
        }
        Ok(Some(Err(e))) => return Err(SimError::Harness(format!("body error: {e}"))),
        Ok(None) => return Err(SimError::Harness("stream closed".into())),
        Err(_) => {}
    }
    while let Some(pos) = pending.iter().position(|b| *b == b'\n') {
        let line: Vec<u8> = pending.drain(..=pos).collect();
        out.push(line[..line.len() - 1].to_vec());
    }
    Ok(out)
}

fn result_key(cells: &[SqliteValue]) -> String {
    cells.iter().map(render_sv).collect::<Vec<_>>().join("|")
}

impl World {
    async fn new(seed: u64, dir: &Path) -> R<World> {
        std::fs::create_dir_all(dir)?;
        verif::gates_clear();
        verif::set_buffer_deadline_ms(3_600_000);
        // tuning knob varied per run: with the production capacity (10240) a catch-up read never
        // stalls in the middle of its snapshot / change-log scan for results this small
        {
            let mut r = Rng::new(seed).fork("t4-knobs");
            verif::set_catchup_buffer(if r.chance(0.5) { *r.pick(&[1usize, 1, 2, 4]) } else { 10240 });
        }
        let s = Node::boot(0, dir.join("s"), seeded_actor(seed, 0), Knobs::default()).await?;
        let p = Node::boot(1, dir.join("p"), seeded_actor(seed, 1), Knobs::default()).await?;
        for n in [&s, &p] {
            let (st, resp) = n.schema(SCHEMA_T1.iter().map(|x| x.to_string()).collect()).await;
            if st != 200 {
                return Err(SimError::Harness(format!("schema: {:?}", resp.results)));
            }
        }
        Ok(World { s, p, p_outbox: vec![], subs: vec![], listeners: vec![], clients: vec![], stats: Stats::default(), log: vec![], known_hits: vec![], dir: dir.to_path_buf(), seed, incarnation: 0 })
    }

    /// The subscription's handle, looked up when needed: the simulator must not keep a clone
    /// (a subscription only finishes once every handle is gone).
    fn h(&self, idx: usize) -> R<MatcherHandle> {
        self.s
            .agent
            .subs_manager()
            .get(&self.subs[idx].id)
            .ok_or_else(|| SimError::Harness(format!("subscription handle gone: {}", self.subs[idx].sql)))
    }

    /// The simulator's own read-only connection to a subscription's database (its pool may be
    /// exhausted by stalled catch-ups, which is the clients' problem, not the oracle's).
    fn sub_conn(&self, id: uuid::Uuid) -> R<rusqlite::Connection> {
        let p = self.s.dir.join("subscriptions").join(id.as_simple().to_string()).join("sub.sqlite");
        let c = rusqlite::Connection::open_with_flags(&p, rusqlite::OpenFlags::SQLITE_OPEN_READ_ONLY)?;
        c.busy_timeout(Duration::from_secs(10))?;
        Ok(c)
    }

    async fn query_node(&self, sql: &str) -> R<Vec<String>> {
        let conn = self.s.agent.pool().read().await.map_err(|e| SimError::Harness(e.to_string()))?;
        let mut st = conn.prepare(sql)?;
        let n = st.column_count();
        let mut rows = st.query([])?;
        let mut out = vec![];
        while let Some(r) = rows.next()? {
            let cells: Vec<SqliteValue> = (0..n).map(|i| r.get::<_, SqliteValue>(i)).collect::<rusqlite::Result<_>>()?;
            out.push(result_key(&cells));
        }
        out.sort();
        Ok(out)
    }

    async fn subscribe(&mut self, template: usize) -> R<Result<(), Violation>> {
        let (class, _table, sql) = TEMPLATES[template % TEMPLATES.len()];
        if self.subs.iter().any(|s| s.sql == sql && !s.cancelled) {
            return Ok(Ok(()));
        }
        let params = serde_json::from_value(json!({})).map_err(|e| SimError::Harness(e.to_string()))?;
        let resp = api_v1_subs(
            Extension(self.s.agent.clone()),
            Extension(self.s.subs_cache.clone()),
            Extension(self.s.tripwire.clone()),
            Query(params),
            Json(Statement::Simple(sql.to_string())),
        )
        .await;
        let status = resp.status();
        let id = resp.headers().get("corro-query-id").and_then(|v| v.to_str().ok()).and_then(|s| s.parse::<uuid::Uuid>().ok());
        let body: Body = resp.into_body().boxed_unsync();
        let Some(id) = id else {
            return Ok(Err(vio("C11", "supported-query-rejected", json!({"class": class, "sql": sql, "status": status.as_u16()}))));
        };
        if self.s.agent.subs_manager().get(&id).is_none() {
            return Err(SimError::Harness("no handle".into()));
        }
        let mut sub = Sub { template, sql: sql.to_string(), id, body, pending: vec![], rows: BTreeMap::new(), last_change: 0, events_since_flush: 0, last_result: vec![], dead: false, cancelled: false };
        // initial snapshot
        let start = Instant::now();
        let mut eoq = false;
        while !eoq {
            if start.elapsed() > Duration::from_secs(30) {
                return Ok(Err(vio("C11", "initial-query-never-finished", json!({"class": class}))));
            }
            for line in read_lines(&mut sub.body, &mut sub.pending, Duration::from_millis(50)).await? {
                let ev: QueryEvent = serde_json::from_slice(&line)?;
                match ev {
                    QueryEvent::Columns(_) => {}
                    QueryEvent::Row(rowid, cells) => {
                        sub.rows.insert(rowid.0, cells);
                    }
                    QueryEvent::EndOfQuery { .. } => eoq = true,
                    QueryEvent::Change(..) => {
                        return Ok(Err(vio("C11", "change-event-before-end-of-query", json!({"class": class}))));
                    }
                    QueryEvent::Error(e) => {
                        return Ok(Err(vio("C11", "subscription-error", json!({"class": class, "error": e.to_string()}))));
                    }
                }
            }
        }
        self.log.push(format!("subscribe {class}: {} initial rows", sub.rows.len()));
        self.subs.push(sub);
        let idx = self.subs.len() - 1;
        self.check_sub(idx, true).await
    }

    async fn listen(&mut self, table: &str) -> R<Result<(), Violation>> {
        if self.listeners.iter().any(|l| l.table == table) {
            return Ok(Ok(()));
        }
        let resp = api_v1_updates(
            Extension(self.s.agent.clone()),
            Extension(self.s.updates_cache.clone()),
            Extension(self.s.tripwire.clone()),
            axum::extract::Path(table.to_string()),
        )
        .await;
        if resp.status() != 200 {
            return Ok(Err(vio("C14", "listener-rejected", json!({"table": table, "status": resp.status().as_u16()}))));
        }
        let pk_cols = if table == "t2" { 2 } else { 1 };
        self.listeners.push(Listener { table: table.to_string(), pk_cols, body: resp.into_body().boxed_unsync(), pending: vec![], seen: vec![], changed: BTreeSet::new() });
        self.log.push(format!("listen {table}"));
        Ok(Ok(()))
    }

    /// per key of a listened table: its CRDT clock rows (a key "changed" iff they differ)
    async fn snapshot(&self) -> R<Vec<BTreeMap<String, Vec<String>>>> {
        let conn = self.s.agent.pool().read().await.map_err(|e| SimError::Harness(e.to_string()))?;
        let mut out = vec![];
        for l in self.listeners.iter() {
            let mut m: BTreeMap<String, Vec<String>> = BTreeMap::new();
            let mut st = conn.prepare(r#"SELECT pk, cid, val, col_version, cl FROM crsql_changes WHERE "table" = ? ORDER BY pk, cid"#)?;
            let mut rows = st.query([l.table.as_str()])?;
            while let Some(r) = rows.next()? {
                let pk: Vec<u8> = r.get(0)?;
                let cid: String = r.get(1)?;
                let val: SqliteValue = r.get(2)?;
                let cv: i64 = r.get(3)?;
                let cl: i64 = r.get(4)?;
                let key = match klukai_types::pubsub::unpack_columns(&pk) {
                    Ok(k) => result_key(&k.iter().map(|x| x.to_owned()).collect::<Vec<_>>()),
                    Err(_) => continue,
                };
                m.entry(key).or_default().push(format!("{cid}|{}|{cv}|{cl}", render_sv(&val)));
            }
            out.push(m);
        }
        Ok(out)
    }

    fn note_diff(&mut self, before: &[BTreeMap<String, Vec<String>>], after: &[BTreeMap<String, Vec<String>>]) {
        for (i, l) in self.listeners.iter_mut().enumerate() {
            let (Some(b), Some(a)) = (before.get(i), after.get(i)) else { continue };
            for k in b.keys().chain(a.keys()) {
                if b.get(k) != a.get(k) {
                    l.changed.insert(k.clone());
                }
            }
        }
    }

    async fn flush_sub(&mut self, idx: usize) -> R<Result<(), Violation>> {
        if self.subs[idx].dead {
            return Ok(Ok(()));
        }
        let table = TEMPLATES[self.subs[idx].template % TEMPLATES.len()].1;
        let before = verif::batches_done();
        if self.h(idx)?.changes_tx().send(sentinel(table)).await.is_err() {
            return Ok(Err(vio("C11", "matcher-stopped", json!({"sql": self.subs[idx].sql}))));
        }
        self.flush_collect(idx, before).await
    }

    /// second half of a forced flush: wait for the batch, read the creating subscriber's
    /// stream up to the newest logged change, compare with the query
    async fn flush_collect(&mut self, idx: usize, before: u64) -> R<Result<(), Violation>> {
        let start = Instant::now();
        while verif::batches_done() == before {
            if start.elapsed() > Duration::from_secs(30) {
                return Ok(Err(vio("C11", "matcher-stopped", json!({"sql": self.subs[idx].sql, "note": "flush not processed within 30 s"}))));
            }
            tokio::time::sleep(Duration::from_micros(200)).await;
        }
        // everything the matcher emitted for this batch is now in its change log
        let max_id: u64 = {
            let conn = self.sub_conn(self.subs[idx].id)?;
            conn.query_row("SELECT COALESCE(MAX(id), 0) FROM changes", [], |r| r.get(0))?
        };
        let start = Instant::now();
        while self.subs[idx].last_change < max_id {
            if start.elapsed() > Duration::from_secs(30) {
                let receivers = self.s.subs_cache.read().await.get(&self.subs[idx].id).map(|tx| tx.receiver_count());
                let handle_present = self.s.agent.subs_manager().get(&self.subs[idx].id).is_some();
                return Ok(Err(vio(
                    "C12",
                    "logged-change-never-delivered-to-the-creating-subscriber",
                    json!({"last_seen": self.subs[idx].last_change, "logged": max_id, "sql": self.subs[idx].sql, "pending_bytes": self.subs[idx].pending.len(),
                           "broadcast_receivers": receivers, "handle_present": handle_present, "catchup_buffer": verif::catchup_buffer(), "clients": self.clients.len()}),
                )));
            }
            let sub = &mut self.subs[idx];
            for line in read_lines(&mut sub.body, &mut sub.pending, Duration::from_millis(30)).await? {
                let ev: QueryEvent = serde_json::from_slice(&line)?;
                match ev {
                    QueryEvent::Change(kind, rowid, cells, ChangeId(id)) => {
                        if id != sub.last_change + 1 {
                            return Ok(Err(vio("C11", "change-ids-not-consecutive", json!({"previous": sub.last_change, "got": id, "sql": sub.sql}))));
                        }
                        sub.last_change = id;
                        sub.events_since_flush += 1;
                        match kind {
                            ChangeType::Insert | ChangeType::Update => {
                                if kind == ChangeType::Insert && sub.rows.contains_key(&rowid.0) {
                                    return Ok(Err(vio("C11", "insert-event-for-existing-row", json!({"rowid": rowid.0, "sql": sub.sql}))));
                                }
                                if kind == ChangeType::Update && !sub.rows.contains_key(&rowid.0) {
                                    return Ok(Err(vio("C11", "update-event-for-unknown-row", json!({"rowid": rowid.0, "sql": sub.sql}))));
                                }
                                sub.rows.insert(rowid.0, cells);
                            }
                            ChangeType::Delete => {
                                if sub.rows.remove(&rowid.0).is_none() {
                                    return Ok(Err(vio("C11", "delete-event-for-unknown-row", json!({"rowid": rowid.0, "sql": sub.sql}))));
                                }
                            }
                        }
                    }
                    QueryEvent::Error(e) => {
                        return Ok(Err(vio("C11", "subscription-error", json!({"error": e.to_string(), "sql": sub.sql}))));
                    }
                    _ => {}
                }
            }
        }
        self.check_sub(idx, false).await
    }

    async fn check_sub(&mut self, idx: usize, initial: bool) -> R<Result<(), Violation>> {
        self.stats.oracle_checks += 1;
        let sql = self.subs[idx].sql.clone();
        let class = TEMPLATES[self.subs[idx].template % TEMPLATES.len()].0;
        let expected = self.query_node(&sql).await?;
        // materialised rows
        let materialised: Vec<String> = {
            let conn = self.sub_conn(self.subs[idx].id)?;
            let ncols = self.h(idx)?.parsed_columns().len();
            let cols: Vec<String> = (0..ncols).map(|i| format!("col_{i}")).collect();
            let mut st = conn.prepare(&format!("SELECT {} FROM query", cols.join(",")))?;
            let mut rows = st.query([])?;
            let mut out = vec![];
            while let Some(r) = rows.next()? {
                let cells: Vec<SqliteValue> = (0..ncols).map(|i| r.get::<_, SqliteValue>(i)).collect::<rusqlite::Result<_>>()?;
                out.push(result_key(&cells));
            }
            out.sort();
            out
        };
        let mut replayed: Vec<String> = self.subs[idx].rows.values().map(|c| result_key(c)).collect();
        replayed.sort();
        let outer = class.starts_with("outer-join");
        let mut problem: Option<(&str, serde_json::Value)> = None;
        if materialised != expected {
            problem = Some(("materialised-rows-differ-from-query", crate::model::first_diff(&materialised, &expected)));
        } else if replayed != expected {
            problem = Some(("replayed-events-differ-from-query", crate::model::first_diff(&replayed, &expected)));
        } else if !initial && expected == self.subs[idx].last_result && self.subs[idx].events_since_flush > 0 {
            problem = Some(("events-although-result-unchanged", json!({"events": self.subs[idx].events_since_flush})));
        }
        if let Some((cls, diff)) = problem {
            let key_only = class == "key-only";
            if (outer || key_only) && cls != "events-although-result-unchanged" {
                // known finding candidates: per-table re-evaluation turns LEFT JOIN into INNER JOIN;
                // a projection without any non-key column of a table misses row creation
                let sig = if outer {
                    "C11:outer-join-result-diverges".to_string()
                } else {
                    "C11:key-only-projection-misses-row-creation".to_string()
                };
                if !self.known_hits.contains(&sig) {
                    self.known_hits.push(sig);
                }
                self.stats.probe("c11.outer-join-diverged");
                self.subs[idx].dead = true;
                return Ok(Ok(()));
            }
            return Ok(Err(vio("C11", cls, json!({"query_class": class, "sql": sql, "diff(subscription,query)": diff}))));
        }
        self.subs[idx].last_result = expected;
        self.subs[idx].events_since_flush = 0;
        self.stats.probe(&format!("c11.checked.{class}"));
        Ok(Ok(()))
    }

    async fn flush_listener(&mut self, idx: usize) -> R<Result<(), Violation>> {
        let table = self.listeners[idx].table.clone();
        let Some(handle) = self.s.agent.updates_manager().get(&table) else {
            return Ok(Err(vio("C14", "listener-gone", json!({"table": table}))));
        };
        if handle.changes_tx().send(sentinel(&table)).await.is_err() {
            return Ok(Err(vio("C14", "updates-loop-stopped", json!({"table": table}))));
        }
        let _ = verif::update_batches_done();
        let start = Instant::now();
        let mut sentinels = 0;
        while sentinels < 1000 {
            if start.elapsed() > Duration::from_secs(30) {
                return Ok(Err(vio("C14", "updates-loop-stopped", json!({"table": table, "sentinels_seen": sentinels}))));
            }
            let l = &mut self.listeners[idx];
            for line in read_lines(&mut l.body, &mut l.pending, Duration::from_millis(30)).await? {
                let ev: NotifyEvent = serde_json::from_slice(&line)?;
                match ev {
                    NotifyEvent::Notify(kind, key) => {
                        if is_sentinel_key(&key) {
                            sentinels += 1;
                        } else {
                            l.seen.push((key, kind));
                        }
                    }
                    NotifyEvent::Error(e) => {
                        return Ok(Err(vio("C14", "listener-error", json!({"error": e.to_string()}))));
                    }
                }
            }
        }
        // oracle
        self.stats.oracle_checks += 1;
        let pkc = self.listeners[idx].pk_cols;
        let key_cols = if table == "t2" { "k1, k2" } else { "id" };
        let present: BTreeSet<String> = {
            let conn = self.s.agent.pool().read().await.map_err(|e| SimError::Harness(e.to_string()))?;
            let mut st = conn.prepare(&format!("SELECT {key_cols} FROM {table}"))?;
            let mut rows = st.query([])?;
            let mut out = BTreeSet::new();
            while let Some(r) = rows.next()? {
                let cells: Vec<SqliteValue> = (0..pkc).map(|i| r.get::<_, SqliteValue>(i)).collect::<rusqlite::Result<_>>()?;
                out.insert(result_key(&cells));
            }
            out
        };
        let l = &mut self.listeners[idx];
        let mut last: BTreeMap<String, ChangeType> = BTreeMap::new();
        for (k, kind) in l.seen.iter() {
            last.insert(result_key(k), *kind);
        }
        for k in l.changed.iter() {
            match last.get(k) {
                None => {
                    return Ok(Err(vio("C14", "changed-key-not-notified", json!({"table": table, "key": k}))));
                }
                Some(kind) => {
                    let deleted = matches!(kind, ChangeType::Delete);
                    if deleted && present.contains(k) {
                        return Ok(Err(vio("C14", "last-notification-says-deleted-but-row-exists", json!({"table": table, "key": k}))));
                    }
                    if !deleted && !present.contains(k) {
                        return Ok(Err(vio("C14", "last-notification-says-updated-but-row-is-gone", json!({"table": table, "key": k}))));
                    }
                }
            }
        }
        for k in last.keys() {
            if !l.changed.contains(k) {
                self.stats.probe("c14.notification-for-unchanged-key");
            }
        }
        self.stats.probe_n("c14.keys-checked", l.changed.len() as u64);
        l.changed.clear();
        l.seen.clear();
        Ok(Ok(()))
    }

    async fn attach(&mut self, sub: usize, mode: u8, back: u64) -> R<Result<(), Violation>> {
        if self.subs.is_empty() {
            return Ok(Ok(()));
        }
        let sub = sub % self.subs.len();
        if self.subs[sub].dead {
            return Ok(Ok(()));
        }
        let id = self.subs[sub].id;
        let Some(tx) = self.s.subs_cache.read().await.get(&id).cloned() else {
            return Ok(Err(vio("C12", "subscription-not-attachable", json!({"sql": self.subs[sub].sql}))));
        };
        let attach_max = self.subs[sub].last_change;
        let (params, expect_next) = match mode % 3 {
            0 => (json!({}), None),
            1 => (json!({"skip_rows": true}), Some(attach_max + 1)),
            _ => {
                let from = attach_max.saturating_sub(back);
                (json!({"from": from}), Some(from + 1))
            }
        };
        let params = serde_json::from_value(params).map_err(|e| SimError::Harness(e.to_string()))?;
        let (evt_tx, evt_rx) = tokio::sync::mpsc::channel(1);
        tokio::spawn(klukai_agent::api::public::pubsub::catch_up_sub(
            self.h(sub)?,
            params,
            tx.subscribe(),
            evt_tx,
        ));
        self.stats.fault(match mode % 3 {
            0 => "attach-from-scratch",
            1 => "attach-skip-rows",
            _ => "resume-from-retained-id",
        });
        self.clients.push(Client { sub, mode: mode % 3, rx: evt_rx, rows: BTreeMap::new(), expect_next, attach_max, got_eoq: false, last: 0, ended: false, events: 0 });
        // let the catch-up run into the full channel (it stalls right after its read)
        let start = Instant::now();
        while self.clients.last().unwrap().rx.is_empty() && start.elapsed() < Duration::from_millis(20) {
            tokio::time::sleep(Duration::from_micros(200)).await;
        }
        self.log.push(format!("attach sub{sub} mode{}", mode % 3));
        Ok(Ok(()))
    }

    async fn client_read(&mut self, ci: usize, n: usize, until_caught_up: bool) -> R<Result<(), Violation>> {
        if self.clients.is_empty() {
            return Ok(Ok(()));
        }
        // (1_000_000 = the client attached last)
        let ci = if ci == 1_000_000 { self.clients.len() - 1 } else { ci % self.clients.len() };
        let target = self.subs[self.clients[ci].sub].last_change;
        let sql = self.subs[self.clients[ci].sub].sql.clone();
        if self.clients[ci].events == 0 && target > self.clients[ci].attach_max {
            self.stats.fault("changes-committed-while-catch-up-was-stalled");
        }
        let start = Instant::now();
        let mut read = 0usize;
        loop {
            let c = &mut self.clients[ci];
            if c.ended {
                break;
            }
            if n > 0 && read >= n {
                break;
            }
            let caught_up = (c.mode != 0 || c.got_eoq) && c.last.max(c.expect_next.map(|x| x - 1).unwrap_or(0)) >= target;
            if until_caught_up && caught_up && c.rx.is_empty() {
                break;
            }
            let msg = match c.rx.try_recv() {
                Ok(m) => Some(m),
                Err(tokio::sync::mpsc::error::TryRecvError::Disconnected) => {
                    c.ended = true;
                    self.stats.probe("c12.stream-closed-by-server");
                    break;
                }
                Err(tokio::sync::mpsc::error::TryRecvError::Empty) => None,
            };
            let Some((bytes, _meta)) = msg else {
                if !until_caught_up && n > 0 {
                    // a bounded read takes what is there
                    if start.elapsed() > Duration::from_millis(30) {
                        break;
                    }
                } else if start.elapsed() > Duration::from_secs(10) {
                    // five or more clients of one subscription that stopped reading in the middle of
                    // their catch-up hold its whole read pool (5 connections): nobody can make
                    // progress until they read on - slow clients' doing, not a continuity defect
                    let (sub_of, c_last, c_mode) = (c.sub, c.last, c.mode);
                    let stalled_others = self
                        .clients
                        .iter()
                        .enumerate()
                        .filter(|(j, o)| *j != ci && o.sub == sub_of && !o.ended && !(o.got_eoq || o.mode != 0) )
                        .count()
                        + self.clients.iter().enumerate().filter(|(j, o)| *j != ci && o.sub == sub_of && !o.ended && (o.got_eoq || o.mode != 0) && o.last < target).count();
                    if stalled_others >= 4 && verif::catchup_buffer() < 10240 {
                        self.stats.probe("c12.stall-with-read-pool-held-by-stalled-clients");
                        return Ok(Ok(()));
                    }
                    return Ok(Err(vio(
                        "C12",
                        "attached-stream-stalled-behind-the-subscription",
                        json!({"sql": sql, "client_last": c_last, "subscription_last": target, "mode": c_mode}),
                    )));
                }
                tokio::time::sleep(Duration::from_micros(300)).await;
                continue;
            };
            read += 1;
            c.events += 1;
            let line = &bytes[..bytes.len().saturating_sub(1)];
            let ev: QueryEvent = serde_json::from_slice(line)?;
            match ev {
                QueryEvent::Columns(_) => {
                    if c.mode != 0 || c.got_eoq {
                        return Ok(Err(vio("C12", "unexpected-snapshot-event", json!({"sql": sql, "mode": c.mode}))));
                    }
                }
                QueryEvent::Row(rowid, cells) => {
                    if c.mode != 0 || c.got_eoq {
                        return Ok(Err(vio("C12", "unexpected-snapshot-event", json!({"sql": sql, "mode": c.mode}))));
                    }
                    c.rows.insert(rowid.0, cells);
                }
                QueryEvent::EndOfQuery { change_id, .. } => {
                    if c.mode != 0 || c.got_eoq {
                        return Ok(Err(vio("C12", "unexpected-snapshot-event", json!({"sql": sql, "mode": c.mode}))));
                    }
                    c.got_eoq = true;
                    let e = change_id.map(|x| x.0).unwrap_or(0);
                    if e < c.attach_max {
                        return Ok(Err(vio("C12", "snapshot-older-than-attach-point", json!({"sql": sql, "snapshot_change_id": e, "attach_point": c.attach_max}))));
                    }
                    c.last = e;
                    c.expect_next = Some(e + 1);
                }
                QueryEvent::Change(kind, rowid, cells, ChangeId(id)) => {
                    if c.mode == 0 && !c.got_eoq {
                        return Ok(Err(vio("C12", "change-before-end-of-snapshot", json!({"sql": sql, "id": id}))));
                    }
                    let want = c.expect_next.unwrap_or(id);
                    if id != want {
                        let class = if id < want { "change-repeated-or-out-of-order" } else { "change-skipped-silently" };
                        return Ok(Err(vio("C12", class, json!({"sql": sql, "expected_id": want, "got_id": id, "mode": c.mode, "attach_point": c.attach_max}))));
                    }
                    c.expect_next = Some(id + 1);
                    c.last = id;
                    match kind {
                        ChangeType::Delete => {
                            c.rows.remove(&rowid.0);
                        }
                        _ => {
                            c.rows.insert(rowid.0, cells);
                        }
                    }
                }
                QueryEvent::Error(e) => {
                    // continuity could not be provided: the stream must stop here
                    c.ended = true;
                    self.stats.probe("c12.stream-ended-with-error");
                    let _ = e;
                }
            }
        }
        // a from-scratch client that is caught up must hold exactly the query result
        let c = &self.clients[ci];
        if until_caught_up && !c.ended && c.mode == 0 && c.got_eoq && !self.subs[c.sub].dead {
            let mut replayed: Vec<String> = c.rows.values().map(|x| result_key(x)).collect();
            replayed.sort();
            // the state of the subscription at its newest change (= what the creating
            // subscriber has replayed, verified against the query at every flush)
            let mut expected: Vec<String> = self.subs[c.sub].rows.values().map(|x| result_key(x)).collect();
            expected.sort();
            self.stats.oracle_checks += 1;
            if replayed != expected {
                return Ok(Err(vio(
                    "C12",
                    "attached-client-state-differs-from-query",
                    json!({"sql": sql, "diff(client,subscription)": crate::model::first_diff(&replayed, &expected)}),
                )));
            }
            self.stats.probe("c12.attached-client-verified");
        }
        Ok(Ok(()))
    }

    /// rows a (restored) subscription holds materialised, None when it has no handle
    async fn materialised(&self, id: uuid::Uuid) -> R<Option<Vec<String>>> {
        let Some(h) = self.s.agent.subs_manager().get(&id) else {
            return Ok(None);
        };
        let conn = self.sub_conn(h.id())?;
        let ncols = h.parsed_columns().len();
        let cols: Vec<String> = (0..ncols).map(|i| format!("col_{i}")).collect();
        let mut st = conn.prepare(&format!("SELECT {} FROM query", cols.join(",")))?;
        let mut rows = st.query([])?;
        let mut out = vec![];
        while let Some(r) = rows.next()? {
            let cells: Vec<SqliteValue> = (0..ncols).map(|i| r.get::<_, SqliteValue>(i)).collect::<rusqlite::Result<_>>()?;
            out.push(result_key(&cells));
        }
        out.sort();
        Ok(Some(out))
    }

    /// C13: the node cancels a subscription nobody listens to any more.
    async fn expire(&mut self, sub: usize) -> R<Result<(), Violation>> {
        if self.subs.is_empty() {
            return Ok(Ok(()));
        }
        let idx = sub % self.subs.len();
        if self.subs[idx].dead {
            return Ok(Ok(()));
        }
        verif::gate_release("bcast");
        self.s.quiesce().await?;
        let id = self.subs[idx].id;
        // precondition of the expiry: no listener left - the creating subscriber and every
        // attached client hang up first (a stalled catch-up would keep the subscription alive)
        self.subs[idx].body = http_body_util::Empty::<Bytes>::new().map_err(|e| match e {}).boxed_unsync();
        for c in self.clients.iter_mut().filter(|c| c.sub == idx) {
            let (_tx, rx) = tokio::sync::mpsc::channel(1);
            c.rx = rx;
            c.ended = true;
        }
        tokio::task::yield_now().await;
        let Some(handle) = self.s.agent.subs_manager().remove(&id) else {
            return Ok(Ok(()));
        };
        let loops_before = verif::matcher_loops_done();
        handle.cleanup().await;
        // its task ends once every handle is gone (the forwarders of attached streams drop
        // theirs when they see the cancellation)
        drop(handle);
        let start = Instant::now();
        while verif::matcher_loops_done() == loops_before {
            if start.elapsed() > Duration::from_secs(60) {
                return Ok(Err(vio("C13", "cancelled-subscription-task-never-ended", json!({"sql": self.subs[idx].sql}))));
            }
            tokio::time::sleep(Duration::from_micros(200)).await;
        }
        let state = self.sub_state_on_disk(&self.s.dir.clone(), id);
        self.log.push(format!("expire {}: state on disk {state:?}", self.subs[idx].sql));
        self.stats.fault("subscription-cancelled-for-lack-of-listeners");
        self.subs[idx].dead = true;
        self.subs[idx].cancelled = true;
        Ok(Ok(()))
    }

    fn sub_state_on_disk(&self, dir: &Path, id: uuid::Uuid) -> Option<String> {
        let p = dir.join("subscriptions").join(id.as_simple().to_string()).join("sub.sqlite");
        if !p.exists() {
            return None;
        }
        let conn = rusqlite::Connection::open_with_flags(&p, rusqlite::OpenFlags::SQLITE_OPEN_READ_ONLY).ok()?;
        conn.query_row("SELECT value FROM meta WHERE key = 'state'", [], |r| r.get::<_, String>(0)).ok()
    }

    /// C13: stop the subscriber node (gracefully or not) and start it again.
    async fn restart_s(&mut self, kind: u8, late: Option<&[Stmt]>, template: usize) -> R<Result<(), Violation>> {
        let kind = kind % 5;
        // nothing is held back across a restart
        verif::gate_release("bcast");
        self.s.quiesce().await?;
        self.p.quiesce().await?;
        for (_, c) in std::mem::take(&mut self.p.outbox) {
            self.p_outbox.push(c);
        }
        let _ = std::mem::take(&mut self.s.outbox);
        // streams of the old process end with it
        self.clients.clear();
        self.listeners.clear();
        let actor = seeded_actor(self.seed, 0);
        if kind == 4 {
            // clean stop and start with the restored subscriptions held before they mark
            // themselves running ...
            verif::gate_arm("sub-restore");
            let r = Box::pin(self.restart_s_inner(0, None, template, false)).await?;
            if r.is_err() {
                verif::gate_release("sub-restore");
                return Ok(r);
            }
            // ... a transaction commits (its candidates are queued for them) ...
            if let Some(stmts) = late {
                let api = stmts.iter().map(|s| stmt(&s.sql, s.params.iter().map(|p| p.to_param()).collect())).collect();
                let (status, resp) = self.s.write(api, None).await?;
                self.log.push(format!("write in the restore window: {status} {:?}", resp.version));
                let _ = std::mem::take(&mut self.s.outbox);
            }
            // ... and the process is killed
            self.stats.fault("killed-before-restored-subscriptions-ran");
            let r = Box::pin(self.restart_s_inner(1, None, template, true)).await?;
            return Ok(r);
        }
        Box::pin(self.restart_s_inner(kind, late, template, true)).await
    }

    async fn restart_s_inner(&mut self, kind: u8, late: Option<&[Stmt]>, template: usize, wait_running: bool) -> R<Result<(), Violation>> {
        let actor = seeded_actor(self.seed, 0);
        let old_dir = self.s.dir.clone();
        let mut fresh_unclean: Option<uuid::Uuid> = None;
        let graceful = kind == 0;
        match kind {
            0 => {
                self.stats.fault("graceful-restart");
                self.s.stop_tasks().await;
                if let Some(stmts) = late {
                    // a transaction committing while the subscriptions are still draining
                    self.stats.fault("transaction-during-shutdown");
                    let api = stmts.iter().map(|s| stmt(&s.sql, s.params.iter().map(|p| p.to_param()).collect())).collect();
                    let (status, resp) = self.s.write(api, None).await?;
                    self.log.push(format!("late write: {status} {:?}", resp.version));
                    let _ = std::mem::take(&mut self.s.outbox);
                }
                self.s.agent.subs_manager().drop_handles().await;
                // the process exits once every subscription task has finished (wait_for_all_pending_handles)
                let start = Instant::now();
                loop {
                    let pending: Vec<String> = self
                        .subs
                        .iter()
                        .filter(|s| !s.cancelled)
                        .filter(|s| self.sub_state_on_disk(&old_dir, s.id).as_deref() != Some("completed"))
                        .map(|s| s.sql.clone())
                        .collect();
                    if pending.is_empty() {
                        break;
                    }
                    if start.elapsed() > Duration::from_secs(30) {
                        return Ok(Err(vio("C13", "subscription-not-marked-complete-by-graceful-shutdown", json!({"sql": pending}))));
                    }
                    tokio::time::sleep(Duration::from_millis(2)).await;
                }
            }
            _ => {
                if kind == 2 {
                    self.stats.fault("killed-during-graceful-shutdown");
                    self.s.stop_tasks().await;
                } else if kind == 3 {
                    self.stats.fault("killed-while-subscription-is-being-created");
                    let (_, _, sql) = TEMPLATES[template % TEMPLATES.len()];
                    if !self.subs.iter().any(|s| s.sql == sql) {
                        let params = serde_json::from_value(json!({})).map_err(|e| SimError::Harness(e.to_string()))?;
                        let resp = api_v1_subs(
                            Extension(self.s.agent.clone()),
                            Extension(self.s.subs_cache.clone()),
                            Extension(self.s.tripwire.clone()),
                            Query(params),
                            Json(Statement::Simple(sql.to_string())),
                        )
                        .await;
                        fresh_unclean = resp.headers().get("corro-query-id").and_then(|v| v.to_str().ok()).and_then(|s| s.parse::<uuid::Uuid>().ok());
                    }
                } else {
                    self.stats.fault("killed");
                }
                self.incarnation += 1;
                let nd = self.dir.join(format!("s-{}", self.incarnation));
                snapshot_dir(&old_dir, &nd)?;
                self.s.trip().await;
                verif::gate_release("sub-restore");
                self.s.dir = nd;
            }
        }
        let new_dir = self.s.dir.clone();
        let states: Vec<Option<String>> = self.subs.iter().map(|s| self.sub_state_on_disk(&new_dir, s.id)).collect();
        let fresh = Node::boot(0, new_dir.clone(), actor, Knobs::default()).await?;
        let old = std::mem::replace(&mut self.s, fresh);
        drop(old);
        self.log.push(format!("restart kind {kind}: states {states:?}"));
        let subs = std::mem::take(&mut self.subs);
        for (mut sub, state) in subs.into_iter().zip(states) {
            self.stats.oracle_checks += 1;
            if graceful && !wait_running {
                // restored subscriptions are held before they run: only their presence is checked
                if !sub.dead && self.s.agent.subs_manager().get(&sub.id).is_none() {
                    return Ok(Err(vio("C13", "subscription-lost-by-graceful-restart", json!({"sql": sub.sql, "state_on_disk": state}))));
                }
                self.subs.push(sub);
                continue;
            }
            let params = serde_json::from_value(json!({"from": sub.last_change})).map_err(|e| SimError::Harness(e.to_string()))?;
            let resp = klukai_agent::api::public::pubsub::api_v1_sub_by_id(
                Extension(self.s.agent.clone()),
                Extension(self.s.subs_cache.clone()),
                Extension(self.s.tripwire.clone()),
                axum::extract::Path(sub.id),
                Query(params),
            )
            .await;
            let status = resp.status().as_u16();
            let dir_exists = new_dir.join("subscriptions").join(sub.id.as_simple().to_string()).exists();
            if sub.cancelled {
                // the node gave this subscription up before it stopped and has not maintained it
                // since: it is either gone for good, or - if it is served again - not stale
                if status == 200 || self.s.agent.subs_manager().get(&sub.id).is_some() {
                    let expected = self.query_node(&sub.sql).await?;
                    let got = self.materialised(sub.id).await?;
                    if got.as_ref().is_some_and(|g| *g != expected) && state.as_deref() == Some("completed") {
                        // open finding (known_findings.jsonl): the expiry path shares the graceful
                        // path's cancellation, so the loop ends by marking itself 'completed'
                        let sig = "C13:expired-subscription-restored-from-stale-state";
                        if !self.known_hits.iter().any(|h| h == sig) {
                            self.known_hits.push(sig.to_string());
                        }
                        self.stats.probe("c13.known.expired-subscription-restored-stale");
                        // it lives on in the node under its SQL: nothing more is judged about it
                        sub.cancelled = false;
                        sub.dead = true;
                        self.subs.push(sub);
                        continue;
                    }
                    if got.as_ref().is_some_and(|g| *g != expected) {
                        return Ok(Err(vio(
                            "C13",
                            "cancelled-subscription-served-from-stale-state-after-restart",
                            json!({"sql": sub.sql, "state_on_disk": state, "kind": kind, "materialised": got, "query_on_database": expected}),
                        )));
                    }
                    self.stats.probe("c13.cancelled-restored-but-current");
                } else {
                    self.stats.probe("c13.cancelled-not-restored");
                }
                continue;
            }
            if !graceful {
                // previous run did not finish cleanly: gone, clients are told to resubscribe
                if status == 200 || self.s.agent.subs_manager().get(&sub.id).is_some() {
                    // is what it serves stale?
                    let expected = self.query_node(&sub.sql).await?;
                    let mut stale = None;
                    if let Some(h) = self.s.agent.subs_manager().get(&sub.id) {
                        let conn = self.sub_conn(h.id())?;
                        let ncols = h.parsed_columns().len();
                        let cols: Vec<String> = (0..ncols).map(|i| format!("col_{i}")).collect();
                        let mut st = conn.prepare(&format!("SELECT {} FROM query", cols.join(",")))?;
                        let mut rows = st.query([])?;
                        let mut out = vec![];
                        while let Some(r) = rows.next()? {
                            let cells: Vec<SqliteValue> = (0..ncols).map(|i| r.get::<_, SqliteValue>(i)).collect::<rusqlite::Result<_>>()?;
                            out.push(result_key(&cells));
                        }
                        out.sort();
                        stale = Some(out != expected);
                    }
                    return Ok(Err(vio("C13", "subscription-served-after-unclean-stop", json!({"sql": sub.sql, "state_on_disk": state, "kind": kind, "materialised_rows_stale": stale}))));
                }
                if dir_exists {
                    return Ok(Err(vio("C13", "unclean-subscription-not-removed", json!({"sql": sub.sql, "state_on_disk": state}))));
                }
                self.stats.probe("c13.unclean-discarded");
                continue;
            }
            if sub.dead {
                // (known finding: its state already differs from its query)
                continue;
            }
            if status != 200 {
                return Ok(Err(vio("C13", "subscription-lost-by-graceful-restart", json!({"sql": sub.sql, "status": status, "state_on_disk": state}))));
            }
            let Some(handle) = self.s.agent.subs_manager().get(&sub.id) else {
                return Ok(Err(vio("C13", "subscription-lost-by-graceful-restart", json!({"sql": sub.sql, "status": status, "note": "no handle"}))));
            };
            sub.body = resp.into_body().boxed_unsync();
            sub.pending.clear();
            // its change log must lead from what the subscriber saw to the present result
            let max_id: u64 = {
                let conn = self.sub_conn(handle.id())?;
                conn.query_row("SELECT COALESCE(MAX(id), 0) FROM changes", [], |r| r.get(0))?
            };
            if max_id < sub.last_change {
                return Ok(Err(vio("C13", "change-log-lost-changes-across-restart", json!({"sql": sub.sql, "seen_before": sub.last_change, "log_max": max_id}))));
            }
            let start = Instant::now();
            while sub.last_change < max_id {
                if start.elapsed() > Duration::from_secs(30) {
                    return Ok(Err(vio("C13", "resume-after-restart-stalled", json!({"sql": sub.sql, "last_seen": sub.last_change, "log_max": max_id}))));
                }
                for line in read_lines(&mut sub.body, &mut sub.pending, Duration::from_millis(30)).await? {
                    let ev: QueryEvent = serde_json::from_slice(&line)?;
                    match ev {
                        QueryEvent::Change(kind, rowid, cells, ChangeId(id)) => {
                            if id != sub.last_change + 1 {
                                return Ok(Err(vio("C13", "change-ids-not-consecutive-across-restart", json!({"previous": sub.last_change, "got": id, "sql": sub.sql}))));
                            }
                            sub.last_change = id;
                            match kind {
                                ChangeType::Delete => {
                                    sub.rows.remove(&rowid.0);
                                }
                                _ => {
                                    sub.rows.insert(rowid.0, cells);
                                }
                            }
                        }
                        QueryEvent::Error(e) => {
                            return Ok(Err(vio("C13", "resume-after-restart-failed", json!({"error": e.to_string(), "sql": sub.sql}))));
                        }
                        _ => {}
                    }
                }
            }
            sub.events_since_flush = 0;
            if wait_running {
                // the restored task marks itself running asynchronously; later steps start from there
                let start = Instant::now();
                while self.sub_state_on_disk(&new_dir, sub.id).as_deref() != Some("running") {
                    if start.elapsed() > Duration::from_secs(30) {
                        return Ok(Err(vio("C13", "restored-subscription-never-running", json!({"sql": sub.sql}))));
                    }
                    tokio::time::sleep(Duration::from_millis(1)).await;
                }
            }
            self.subs.push(sub);
            let idx = self.subs.len() - 1;
            self.stats.probe("c13.restored");
            // materialised rows and the replayed log must equal the query on the database now
            match self.check_sub(idx, true).await? {
                Ok(()) => {}
                Err(mut v) => {
                    v.property = "C13".into();
                    v.class = format!("after-graceful-restart-{}", v.class);
                    return Ok(Err(v));
                }
            }
        }
        if let Some(id) = fresh_unclean {
            if self.s.agent.subs_manager().get(&id).is_some() {
                return Ok(Err(vio("C13", "subscription-served-after-unclean-stop", json!({"note": "killed during creation", "state_on_disk": self.sub_state_on_disk(&new_dir, id)}))));
            }
            if new_dir.join("subscriptions").join(id.as_simple().to_string()).exists() {
                return Ok(Err(vio("C13", "unclean-subscription-not-removed", json!({"note": "killed during creation"}))));
            }
        }
        Ok(Ok(()))
    }

    async fn exec(&mut self, ev: &Ev) -> R<Result<(), Violation>> {
        self.stats.steps += 1;
        match ev {
            Ev::Subscribe { template } => {
                self.stats.ev("Subscribe");
                self.subscribe(*template).await
            }
            Ev::Listen { table } => {
                self.stats.ev("Listen");
                self.listen(table).await
            }
            Ev::Write { node, stmts } => {
                self.stats.ev("Write");
                let api = stmts.iter().map(|s| stmt(&s.sql, s.params.iter().map(|p| p.to_param()).collect())).collect();
                let before = if *node == 0 { self.snapshot().await? } else { vec![] };
                let n = if *node == 0 { &mut self.s } else { &mut self.p };
                let (status, resp) = n.write(api, None).await?;
                let outbox = std::mem::take(&mut n.outbox);
                self.log.push(format!("write n{node}: {status} {:?}", resp.version));
                if status == 200 && resp.version.is_some() {
                    if *node == 0 {
                        let after = self.snapshot().await?;
                        self.note_diff(&before, &after);
                    } else {
                        for (_, c) in outbox {
                            self.p_outbox.push(c);
                        }
                    }
                }
                Ok(Ok(()))
            }
            Ev::Deliver { mode } => {
                self.stats.ev("Deliver");
                let mut msgs = std::mem::take(&mut self.p_outbox);
                if msgs.is_empty() {
                    return Ok(Ok(()));
                }
                let before = self.snapshot().await?;
                let batches: Vec<Vec<ChangeV1>> = match mode % 4 {
                    0 => vec![msgs],
                    1 => msgs.into_iter().map(|m| vec![m]).collect(),
                    2 => {
                        self.stats.fault("reversed-delivery");
                        msgs.reverse();
                        msgs.into_iter().map(|m| vec![m]).collect()
                    }
                    _ => {
                        self.stats.fault("reversed-delivery");
                        self.stats.fault("duplicated-delivery");
                        let mut d = msgs.clone();
                        msgs.reverse();
                        d.extend(msgs);
                        vec![d]
                    }
                };
                for b in batches {
                    let r = self.s.deliver(b.into_iter().map(|c| (c, ChangeSource::Broadcast)).collect()).await?;
                    if let Err(e) = r {
                        return Ok(Err(vio("C03", "deliver-failed", json!({"error": e}))));
                    }
                }
                let after = self.snapshot().await?;
                self.note_diff(&before, &after);
                self.log.push(format!("deliver mode {mode}"));
                Ok(Ok(()))
            }
            Ev::Apply => {
                self.stats.ev("Apply");
                let backlog = std::mem::take(&mut self.s.apply_backlog);
                if !backlog.is_empty() {
                    self.stats.fault("buffered-then-applied");
                }
                let before = self.snapshot().await?;
                for (a, v) in backlog {
                    let r = self.s.apply(a, v).await?;
                    if let Err(e) = r {
                        return Ok(Err(vio("C03", "apply-failed", json!({"error": e}))));
                    }
                }
                let after = self.snapshot().await?;
                self.note_diff(&before, &after);
                Ok(Ok(()))
            }
            Ev::Attach { sub, mode, back } => {
                self.stats.ev("Attach");
                self.attach(*sub, *mode, *back).await
            }
            Ev::AttachMidBatch { sub, mode } => {
                self.stats.ev("AttachMidBatch");
                if self.subs.is_empty() {
                    return Ok(Ok(()));
                }
                let idx = *sub % self.subs.len();
                if self.subs[idx].dead {
                    return Ok(Ok(()));
                }
                // nothing held back, every announcement delivered to the loops
                verif::gate_release("bcast");
                self.s.quiesce().await?;
                let table = TEMPLATES[self.subs[idx].template % TEMPLATES.len()].1;
                let before = verif::batches_done();
                verif::gate_arm("matcher-before-commit");
                if self.h(idx)?.changes_tx().send(sentinel(table)).await.is_err() {
                    verif::gate_release("matcher-before-commit");
                    return Ok(Err(vio("C11", "matcher-stopped", json!({"sql": self.subs[idx].sql}))));
                }
                let start = Instant::now();
                while verif::gate_parked("matcher-before-commit") == 0 {
                    if start.elapsed() > Duration::from_secs(30) {
                        verif::gate_release("matcher-before-commit");
                        return Ok(Err(vio("C11", "matcher-stopped", json!({"sql": self.subs[idx].sql, "note": "batch never reached its commit"}))));
                    }
                    tokio::time::sleep(Duration::from_micros(200)).await;
                }
                self.stats.fault("attach-in-the-middle-of-a-batch");
                // from scratch or resuming from the newest id the creating subscriber has seen
                let r = self.attach(idx, if *mode % 2 == 0 { 0 } else { 2 }, 0).await?;
                // let the catch-up do its reads against the uncommitted state
                tokio::time::sleep(Duration::from_millis(25)).await;
                verif::gate_release("matcher-before-commit");
                if let Err(v) = r {
                    return Ok(Err(v));
                }
                self.flush_collect(idx, before).await
            }
            Ev::AttachAfterEvent { sub } => {
                self.stats.ev("AttachAfterEvent");
                if self.subs.is_empty() {
                    return Ok(Ok(()));
                }
                let idx = *sub % self.subs.len();
                if self.subs[idx].dead {
                    return Ok(Ok(()));
                }
                verif::gate_release("bcast");
                self.s.quiesce().await?;
                let table = TEMPLATES[self.subs[idx].template % TEMPLATES.len()].1;
                let before = verif::batches_done();
                verif::gate_arm("matcher-after-event");
                if self.h(idx)?.changes_tx().send(sentinel(table)).await.is_err() {
                    verif::gate_release("matcher-after-event");
                    return Ok(Err(vio("C11", "matcher-stopped", json!({"sql": self.subs[idx].sql}))));
                }
                // parked after its first event - or the batch produced no event at all
                let start = Instant::now();
                let mut parked = false;
                loop {
                    if verif::gate_parked("matcher-after-event") > 0 {
                        parked = true;
                        break;
                    }
                    if verif::batches_done() != before {
                        break;
                    }
                    if start.elapsed() > Duration::from_secs(30) {
                        verif::gate_release("matcher-after-event");
                        return Ok(Err(vio("C11", "matcher-stopped", json!({"sql": self.subs[idx].sql, "note": "batch neither produced an event nor finished"}))));
                    }
                    tokio::time::sleep(Duration::from_micros(200)).await;
                }
                if parked {
                    self.stats.fault("attach-right-after-an-event-was-handed-out");
                    // let the event reach the broadcaster before the newcomer subscribes
                    tokio::time::sleep(Duration::from_millis(15)).await;
                    let r = self.attach(idx, 0, 0).await?;
                    if let Err(v) = r {
                        verif::gate_release("matcher-after-event");
                        return Ok(Err(v));
                    }
                    // the newcomer is a fast reader: it takes its whole snapshot now, so that its
                    // catch-up decides "am I caught up?" inside this window
                    let r2 = self.client_read(1_000_000, 100_000, false).await?;
                    tokio::time::sleep(Duration::from_millis(20)).await;
                    verif::gate_release("matcher-after-event");
                    if let Err(v) = r2 {
                        return Ok(Err(v));
                    }
                } else {
                    verif::gate_release("matcher-after-event");
                }
                self.flush_collect(idx, before).await
            }
            Ev::ClientRead { client, n } => {
                self.stats.ev("ClientRead");
                if *n > 0 {
                    self.stats.fault("slow-client-partial-read");
                }
                self.client_read(*client, *n, *n == 0).await
            }
            Ev::ArmBcast => {
                self.stats.ev("ArmBcast");
                verif::gate_arm("bcast");
                Ok(Ok(()))
            }
            Ev::DisarmBcast => {
                self.stats.ev("DisarmBcast");
                verif::gate_disarm("bcast");
                Ok(Ok(()))
            }
            Ev::ReleaseBcast => {
                self.stats.ev("ReleaseBcast");
                if verif::gate_parked("bcast") > 0 {
                    self.stats.fault("local-announcement-delivered-after-later-transactions");
                }
                verif::gate_release("bcast");
                self.s.quiesce().await?;
                self.p.quiesce().await?;
                // announcements of the peer that were held back
                let outbox = std::mem::take(&mut self.p.outbox);
                for (_, c) in outbox {
                    self.p_outbox.push(c);
                }
                let _ = std::mem::take(&mut self.s.outbox);
                Ok(Ok(()))
            }
            Ev::RestartS { kind, late, template } => {
                self.stats.ev("RestartS");
                self.restart_s(*kind, late.as_deref(), *template).await
            }
            Ev::Expire { sub } => {
                self.stats.ev("Expire");
                self.expire(*sub).await
            }
            Ev::Flush => {
                self.stats.ev("Flush");
                // nothing may be held back at a flush point
                verif::gate_release("bcast");
                self.s.quiesce().await?;
                self.p.quiesce().await?;
                for (_, c) in std::mem::take(&mut self.p.outbox) {
                    self.p_outbox.push(c);
                }
                for i in 0..self.subs.len() {
                    if let Err(v) = self.flush_sub(i).await? {
                        return Ok(Err(v));
                    }
                }
                for i in 0..self.listeners.len() {
                    if let Err(v) = self.flush_listener(i).await? {
                        return Ok(Err(v));
                    }
                }
                Ok(Ok(()))
            }
        }
    }
}

pub fn generate(seed: u64) -> Vec<Ev> {
    generate_for(seed, "C11")
}

pub fn generate_for(seed: u64, check: &str) -> Vec<Ev> {
    let lifecycle = check == "C13";
    let mut r = Rng::new(seed).fork(if lifecycle { "t4-lifecycle" } else { "t4" });
    let mut g = Gen::new(seed);
    let wl = RunCfg {
        nodes: 2, keys: r.range(2, 5), max_events: 0, max_writes: 0, w_write: 0, w_deliver: 0, w_apply: 0, w_clear: 0, w_sync: 0,
        w_recut: 0, w_drop: 0, w_crash: 0, w_restart: 0, p_large: if r.chance(0.3) { 0.1 } else { 0.0 }, p_fail_stmt: 0.1, p_dup: 0.0, max_rounds: 0, focus: "C11".into(),
    };
    let mut evs = vec![];
    // some data before the first subscription
    for _ in 0..r.below(5) {
        let n = r.usize_below(2);
        evs.push(Ev::Write { node: n, stmts: g.gen_write(&wl, n) });
    }
    if r.chance(0.5) {
        evs.push(Ev::Deliver { mode: 0 });
        evs.push(Ev::Apply);
    }
    let n_subs = r.range(1, 3);
    for _ in 0..n_subs {
        let t = if !lifecycle && r.chance(0.2) { 7 + r.usize_below(3) } else { r.usize_below(7) };
        evs.push(Ev::Subscribe { template: t });
    }
    if r.chance(0.7) {
        evs.push(Ev::Listen { table: r.pick(&["t1", "t2", "t3"]).to_string() });
    }
    let steps = r.range(5, 40);
    for _ in 0..steps {
        if r.chance(0.12) {
            // delete-then-recreate (or any two transactions) on the same keys, first one's
            // announcement held back until after the second one's
            evs.push(Ev::ArmBcast);
            evs.push(Ev::Write { node: 0, stmts: g.gen_write(&wl, 0) });
            evs.push(Ev::DisarmBcast);
            evs.push(Ev::Write { node: 0, stmts: g.gen_write(&wl, 0) });
            if r.chance(0.5) {
                evs.push(Ev::Deliver { mode: r.below(4) as u8 });
            }
            evs.push(Ev::ReleaseBcast);
            continue;
        }
        // Expire events are NOT generated for now (see DESIGN 7.6): runs that re-subscribe the same
        // SQL after an expiry raised untriaged C11 / C12 alarms at the end of round 15
        if false && lifecycle && r.chance(0.07) {
            // a subscription nobody listens to is given up; the database moves on; restart
            evs.push(Ev::Expire { sub: r.usize_below(3) });
            for _ in 0..r.range(1, 3) {
                evs.push(Ev::Write { node: 0, stmts: g.gen_write(&wl, 0) });
            }
            if r.chance(0.5) {
                evs.push(Ev::Flush);
            }
            let kind = r.weighted(&[70, 15, 15]) as u8;
            evs.push(Ev::RestartS { kind, late: None, template: r.usize_below(7) });
            if r.chance(0.5) {
                evs.push(Ev::Subscribe { template: r.usize_below(7) });
            }
            continue;
        }
        if lifecycle && r.chance(0.12) {
            // stop points: with unflushed candidates (no Flush before), right after a flush,
            // with a transaction committing while the subscriptions drain
            if r.chance(0.3) {
                evs.push(Ev::Flush);
            }
            let kind = r.weighted(&[50, 17, 13, 8, 12]) as u8;
            let late = if (kind == 0 && r.chance(0.5)) || (kind == 4 && r.chance(0.8)) { Some(g.gen_write(&wl, 0)) } else { None };
            evs.push(Ev::RestartS { kind, late, template: r.usize_below(7) });
            if kind != 0 || r.chance(0.3) {
                // after an unclean stop clients resubscribe
                for _ in 0..r.range(1, 2) {
                    evs.push(Ev::Subscribe { template: r.usize_below(7) });
                }
            }
            continue;
        }
        if !lifecycle && r.chance(0.05) {
            evs.push(Ev::Write { node: 0, stmts: g.gen_write(&wl, 0) });
            evs.push(Ev::AttachAfterEvent { sub: r.usize_below(3) });
            // the client reads to the end after more has happened
            evs.push(Ev::Write { node: 0, stmts: g.gen_write(&wl, 0) });
            evs.push(Ev::Flush);
            evs.push(Ev::ClientRead { client: 1_000_000, n: 0 });
            continue;
        }
        if !lifecycle && r.chance(0.08) {
            evs.push(Ev::Write { node: 0, stmts: g.gen_write(&wl, 0) });
            evs.push(Ev::AttachMidBatch { sub: r.usize_below(3), mode: r.below(2) as u8 });
            continue;
        }
        if r.chance(0.15) {
            evs.push(Ev::Attach { sub: r.usize_below(3), mode: r.below(3) as u8, back: r.below(6) });
            continue;
        }
        if r.chance(0.12) {
            evs.push(Ev::ClientRead { client: r.usize_below(4), n: if r.chance(0.5) { 0 } else { r.range(1, 5) as usize } });
            continue;
        }
        match r.weighted(&[45, 15, 10, 25, 3, 2]) {
            0 => {
                let n = r.usize_below(2);
                evs.push(Ev::Write { node: n, stmts: g.gen_write(&wl, n) });
            }
            1 => evs.push(Ev::Deliver { mode: r.below(4) as u8 }),
            2 => evs.push(Ev::Apply),
            3 => evs.push(Ev::Flush),
            4 => evs.push(Ev::Subscribe { template: r.usize_below(7) }),
            _ => evs.push(Ev::Listen { table: r.pick(&["t1", "t2", "t3"]).to_string() }),
        }
    }
    evs.push(Ev::Deliver { mode: 0 });
    evs.push(Ev::Apply);
    evs.push(Ev::Flush);
    for c in 0..8 {
        evs.push(Ev::ClientRead { client: c, n: 0 });
    }
    evs
}

pub async fn run_events(seed: u64, events: &[Ev], base: &Path, tag: &str) -> R<RunOutcome> {
    let dir = base.join(format!("t4-{}-{seed:016x}-{tag}", std::process::id()));
    let _ = std::fs::remove_dir_all(&dir);
    let mut w = World::new(seed, &dir).await?;
    let mut violation = None;
    let mut done = vec![];
    for (i, ev) in events.iter().enumerate() {
        done.push(ev.clone());
        if let Err(mut v) = w.exec(ev).await? {
            v.step = i + 1;
            violation = Some(v);
            break;
        }
    }
    let mut stats = w.stats.clone();
    let mut sh = 0xcbf2_9ce4_8422_2325;
    for e in &done {
        let s = match e {
            Ev::Subscribe { template } => format!("S{template}"),
            Ev::Listen { table } => format!("L{table}"),
            Ev::Write { node, stmts } => format!("W{node}{}", stmts.len().min(3)),
            Ev::Deliver { mode } => format!("D{mode}"),
            Ev::Apply => "A".into(),
            Ev::Flush => "F".into(),
            Ev::ArmBcast => "G".into(),
            Ev::DisarmBcast => "g".into(),
            Ev::ReleaseBcast => "R".into(),
            Ev::Attach { mode, .. } => format!("T{mode}"),
            Ev::ClientRead { n, .. } => format!("c{}", (*n).min(2)),
            Ev::AttachMidBatch { mode, .. } => format!("M{mode}"),
            Ev::AttachAfterEvent { .. } => "N".into(),
            Ev::RestartS { kind, late, .. } => format!("X{kind}{}", late.is_some() as u8),
            Ev::Expire { .. } => "E".into(),
        };
        fnv(&mut sh, s.as_bytes());
    }
    stats.schedule_hash = sh;
    stats.nontrivial = stats.events.get("Flush").copied().unwrap_or(0) >= 1 && stats.events.get("Write").copied().unwrap_or(0) >= 2;
    stats.converged = violation.is_none();
    let mut h = 0xcbf2_9ce4_8422_2325;
    for l in &w.log {
        fnv(&mut h, l.as_bytes());
    }
    let known = w.known_hits.clone();
    drop(w);
    let _ = std::fs::remove_dir_all(&dir);
    Ok(RunOutcome {
        seed,
        tier: "t4".into(),
        config: json!({}),
        events: done.iter().map(|e| serde_json::to_value(e).unwrap()).collect(),
        violation,
        known,
        stats,
        log_digest: h,
    })
}
