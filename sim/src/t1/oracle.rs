//! Oracles of the cluster tier. Each returns Ok(Err(violation)) with the id of
//! the property whose statement is contradicted.

use std::collections::{BTreeMap, BTreeSet, HashMap};

use klukai_types::{
    actor::ActorId,
    agent::BookedVersions,
    base::CrsqlSeq,
    broadcast::{ChangeV1, Changeset},
    change::Change,
    sync::{SyncNeedV1, SyncStateV1},
};
use rangemap::RangeInclusiveSet;
use serde_json::json;

use super::exec::{StepRes, World, tri, vio};
use crate::{
    model::{TABLES_T1, VState, dump_clock, dump_tables, first_diff, read_version_changes},
    node::R,
    trace::{Violation, fnv},
};

type VRes<T> = R<Result<T, Violation>>;

fn rs(set: &RangeInclusiveSet<u64>) -> Vec<(u64, u64)> {
    set.iter().map(|r| (*r.start(), *r.end())).collect()
}

// ---------------------------------------------------------------------------
// C07 / C08: the announcement of a local transaction

pub fn check_announcement(
    w: &mut World,
    n: usize,
    v: u64,
    reference: &[Change],
    outbox: &[(bool, ChangeV1)],
) -> VRes<()> {
    check_announcement_of(w, n, v, reference, reference, outbox)
}

/// `reference`: the changes the transaction committed; `expected`: what of them an
/// announcement made *now* can still read (all of them right after the commit; those not
/// overwritten since, when the announcement was delayed). The chunks must tile
/// 0..=last_seq of the committed version either way.
pub fn check_announcement_of(
    w: &mut World,
    n: usize,
    v: u64,
    reference: &[Change],
    expected: &[Change],
    outbox: &[(bool, ChangeV1)],
) -> VRes<()> {
    w.stats.oracle_checks += 1;
    if reference.is_empty() {
        return vio(
            "C07",
            "acked-version-without-changes",
            json!({"node": n, "version": v}),
        );
    }
    let last_seq = reference.last().unwrap().seq.0;
    let mut chunks: Vec<(u64, u64, &Vec<Change>)> = vec![];
    for (rebroadcast, c) in outbox {
        if *rebroadcast || c.actor_id != w.actors[n] {
            return vio(
                "C07",
                "foreign-announcement",
                json!({"node": n, "version": v}),
            );
        }
        match &c.changeset {
            Changeset::Full {
                version,
                changes,
                seqs,
                last_seq: ls,
                ..
            } => {
                if version.0 != v {
                    return vio(
                        "C07",
                        "announced-other-version",
                        json!({"node": n, "acked": v, "announced": version.0}),
                    );
                }
                if ls.0 != last_seq {
                    return vio(
                        "C07",
                        "announced-wrong-last-seq",
                        json!({"node": n, "version": v, "last_seq": ls.0, "expected": last_seq}),
                    );
                }
                chunks.push((seqs.start().0, seqs.end().0, changes));
            }
            _ => {
                return vio(
                    "C07",
                    "announced-non-full",
                    json!({"node": n, "version": v}),
                );
            }
        }
    }
    chunks.sort_by_key(|c| (c.0, c.1));
    if chunks.is_empty() {
        return vio(
            "C07",
            "acked-not-announced",
            json!({"node": n, "version": v}),
        );
    }
    if chunks.len() > 1 {
        w.stats.probe("announce.multi-chunk");
    }
    let ranges: Vec<(u64, u64)> = chunks.iter().map(|c| (c.0, c.1)).collect();
    let mut next = 0u64;
    for (a, b, changes) in &chunks {
        if *a != next || b < a {
            return vio(
                "C08",
                "announce-not-tiling",
                json!({"node": n, "version": v, "ranges": ranges, "last_seq": last_seq}),
            );
        }
        for c in changes.iter() {
            if c.seq.0 < *a || c.seq.0 > *b {
                return vio(
                    "C08",
                    "change-outside-chunk-range",
                    json!({"node": n, "version": v, "seq": c.seq.0, "range": [a, b]}),
                );
            }
        }
        next = b + 1;
    }
    if next != last_seq + 1 {
        return vio(
            "C08",
            "announce-not-tiling",
            json!({"node": n, "version": v, "ranges": ranges, "last_seq": last_seq}),
        );
    }
    let all: Vec<&Change> = chunks.iter().flat_map(|c| c.2.iter()).collect();
    if all.len() != expected.len() || all.iter().zip(expected.iter()).any(|(a, b)| **a != *b) {
        return vio(
            "C07",
            "announced-changes-differ",
            json!({"node": n, "version": v, "announced": all.len(), "committed": reference.len(), "still_live": expected.len()}),
        );
    }
    Ok(Ok(()))
}

// ---------------------------------------------------------------------------
// C03: apply triggers

fn trigger_ok(w: &World, n: usize, actor: &ActorId, v: u64) -> bool {
    let Some(&a) = w.actor_idx.get(actor) else {
        return false;
    };
    match w.model[n].actors.get(&a).and_then(|am| am.versions.get(&v)) {
        None => false,
        Some(vm) => match vm.state {
            VState::Partial => vm.covered_some(),
            _ => true,
        },
    }
}

pub fn check_triggers(w: &mut World, n: usize, newly_covered: &[(usize, u64)]) -> VRes<()> {
    w.stats.oracle_checks += 1;
    let backlog = w.node(n).apply_backlog.clone();
    for (a, v) in newly_covered {
        let actor = w.actors[*a];
        if !backlog.iter().any(|(x, y)| *x == actor && y.0 == *v) {
            return vio(
                "C03",
                "covered-but-not-scheduled",
                json!({"node": n, "actor": a, "version": v}),
            );
        }
    }
    for (actor, v) in backlog.iter() {
        if !trigger_ok(w, n, actor, v.0) {
            return vio(
                "C03",
                "apply-scheduled-for-uncovered-version",
                json!({"node": n, "actor": w.actor_idx.get(actor), "version": v.0}),
            );
        }
    }
    Ok(Ok(()))
}

/// C06/C03: after a (re)start every fully buffered, unapplied version is
/// scheduled again, and nothing uncovered is.
pub fn check_after_boot(w: &mut World, n: usize) -> VRes<()> {
    w.stats.oracle_checks += 1;
    let backlog = w.node(n).apply_backlog.clone();
    let mut expected = vec![];
    for (a, am) in w.model[n].actors.iter() {
        for (v, vm) in am.versions.iter() {
            if vm.state == VState::Partial && vm.covered_all() {
                expected.push((*a, *v));
            }
        }
    }
    for (a, v) in expected {
        w.stats.probe("boot.retrigger-expected");
        let actor = w.actors[a];
        if !backlog.iter().any(|(x, y)| *x == actor && y.0 == v) {
            return vio(
                "C06",
                "buffered-version-not-rescheduled-after-restart",
                json!({"node": n, "actor": a, "version": v}),
            );
        }
    }
    for (actor, v) in backlog.iter() {
        if !trigger_ok(w, n, actor, v.0) {
            return vio(
                "C06",
                "apply-scheduled-for-uncovered-version-after-restart",
                json!({"node": n, "actor": w.actor_idx.get(actor), "version": v.0}),
            );
        }
    }
    Ok(Ok(()))
}

// ---------------------------------------------------------------------------
// per-step node invariants: C02 (advertised state == holdings, durable ==
// in-memory) and C03 (tables == shadow)

pub async fn check_node(w: &mut World, n: usize) -> StepRes {
    w.stats.oracle_checks += 1;
    let state = w.node(n).sync_state().await;
    let cs = w.canon(&state);
    // --- C02 (a): advertised classes vs holdings model
    for a in 0..w.n() {
        let (exp_head, exp_need, exp_partial): (u64, Vec<(u64, u64)>, BTreeMap<u64, Vec<Vec<(u64, u64)>>>) =
            if a == n {
                (w.own_head[n], vec![], BTreeMap::new())
            } else {
                match w.model[n].actors.get(&a) {
                    None => (0, vec![], BTreeMap::new()),
                    Some(am) => {
                        let mut p = BTreeMap::new();
                        for (v, vm) in am.versions.iter() {
                            if vm.state == VState::Partial {
                                p.insert(*v, vm.acceptable_gaps());
                            }
                        }
                        (am.head(), rs(&am.needed()), p)
                    }
                }
            };
        let got_head = cs.heads.get(&a).copied().unwrap_or(0);
        let mut got_need = cs.need.get(&a).cloned().unwrap_or_default();
        if w.regressed.contains(&(n, a)) {
            // gap rows stored before the restart may lie beyond the (lower) head
            let before = got_need.len();
            got_need = got_need
                .into_iter()
                .filter(|(x, _)| *x <= exp_head)
                .map(|(x, y)| (x, y.min(exp_head)))
                .collect();
            if got_need.len() != before {
                w.stats.probe("c02.gap-rows-beyond-head-after-restart");
            }
        }
        let got_partial = cs.partial.get(&a).cloned().unwrap_or_default();
        if got_head != exp_head {
            let class = if got_head > exp_head {
                "advertised-head-beyond-held"
            } else {
                "advertised-head-below-held"
            };
            return vio(
                "C02",
                class,
                json!({"node": n, "actor": a, "advertised": got_head, "model": exp_head}),
            );
        }
        if got_need != exp_need {
            // which direction?
            let g: BTreeSet<u64> = got_need.iter().flat_map(|(a, b)| *a..=*b).collect();
            let e: BTreeSet<u64> = exp_need.iter().flat_map(|(a, b)| *a..=*b).collect();
            let class = if e.difference(&g).next().is_some() {
                "held-claimed-without-data"
            } else {
                "needed-although-held"
            };
            return vio(
                "C02",
                class,
                json!({"node": n, "actor": a, "advertised_need": got_need, "model_need": exp_need}),
            );
        }
        let mut partial_ok = got_partial.keys().all(|v| exp_partial.contains_key(v));
        for (v, alternatives) in exp_partial.iter() {
            let got = got_partial.get(v).cloned().unwrap_or_default();
            if !alternatives.contains(&got) {
                partial_ok = false;
            }
        }
        if !partial_ok {
            let exp_first: BTreeMap<u64, Vec<(u64, u64)>> = exp_partial
                .iter()
                .filter(|(_, alts)| !alts[0].is_empty())
                .map(|(v, alts)| (*v, alts[0].clone()))
                .collect();
            let class = partial_mismatch_class(w, n, a, &got_partial, &exp_first);
            return vio(
                "C02",
                &class,
                json!({"node": n, "actor": a, "advertised_partial": got_partial, "acceptable_partial": exp_partial}),
            );
        }
    }
    // --- C02 (c),(d): persisted records vs in-memory vs reload
    let conn = w.read_conn(n).await?;
    for a in 0..w.n() {
        let actor = w.actors[a];
        let mut gaps: Vec<(u64, u64)> = conn
            .prepare_cached("SELECT start, end FROM __corro_bookkeeping_gaps WHERE actor_id = ? ORDER BY start")?
            .query_map([actor], |r| Ok((r.get(0)?, r.get(1)?)))?
            .collect::<rusqlite::Result<_>>()?;
        gaps.sort();
        let mem_need = cs.need.get(&a).cloned().unwrap_or_default();
        let regressed = w.regressed.contains(&(n, a));
        if regressed && cs.heads.get(&a).is_none() {
            // the actor is not advertised at all (no head): nothing to compare
            continue;
        }
        if gaps != mem_need {
            return vio(
                "C02",
                "persisted-gaps-differ-from-memory",
                json!({"node": n, "actor": a, "rows": gaps, "memory": mem_need}),
            );
        }
        // pairwise disjoint, non-adjacent, inside 1..head
        let head = cs.heads.get(&a).copied().unwrap_or(0);
        let mut prev_end: Option<u64> = None;
        for (s, e) in gaps.iter() {
            let bad = *s < 1
                || e < s
                || (*e > head && !regressed)
                || prev_end.is_some_and(|p| *s <= p + 1);
            if bad {
                return vio(
                    "C02",
                    "malformed-gap-rows",
                    json!({"node": n, "actor": a, "rows": gaps, "head": head}),
                );
            }
            prev_end = Some(*e);
        }
        if a == n {
            if !gaps.is_empty() {
                return vio("C07", "gap-in-own-versions", json!({"node": n, "rows": gaps}));
            }
            continue;
        }
        // partial records
        let seq_rows: Vec<(u64, u64, u64, u64)> = conn
            .prepare_cached("SELECT db_version, start_seq, end_seq, last_seq FROM __corro_seq_bookkeeping WHERE site_id = ? ORDER BY db_version, start_seq")?
            .query_map([actor], |r| Ok((r.get(0)?, r.get(1)?, r.get(2)?, r.get(3)?)))?
            .collect::<rusqlite::Result<_>>()?;
        let mut by_v: BTreeMap<u64, Vec<(u64, u64, u64)>> = BTreeMap::new();
        for (v, s, e, l) in seq_rows {
            by_v.entry(v).or_default().push((s, e, l));
        }
        let reloaded = BookedVersions::from_conn(&conn, actor)?;
        let am = w.model[n].actors.get(&a).cloned().unwrap_or_default();
        for (v, vm) in am.versions.iter() {
            if vm.state != VState::Partial {
                continue;
            }
            let rows = by_v.get(v).cloned().unwrap_or_default();
            let got: Vec<(u64, u64)> = rows.iter().map(|(s, e, _)| (*s, *e)).collect();
            let exp = rs(&vm.ranges);
            if got != exp {
                return vio(
                    "C02",
                    "persisted-partial-ranges-differ",
                    json!({"node": n, "actor": a, "version": v, "rows": got, "model": exp}),
                );
            }
            let buffered: Vec<u64> = conn
                .prepare_cached("SELECT seq FROM __corro_buffered_changes WHERE site_id = ? AND db_version = ? ORDER BY seq")?
                .query_map(rusqlite::params![actor, v], |r| r.get(0))?
                .collect::<rusqlite::Result<_>>()?;
            let exp_b: Vec<u64> = vm.changes.keys().copied().collect();
            if buffered != exp_b {
                return vio(
                    "C03",
                    "buffered-rows-differ-from-delivered",
                    json!({"node": n, "actor": a, "version": v, "rows": buffered.len(), "model": exp_b.len()}),
                );
            }
            // reload equivalence
            match reloaded.get_partial(&klukai_types::base::CrsqlDbVersion(*v)) {
                None => {
                    return vio(
                        "C02",
                        "partial-lost-on-reload",
                        json!({"node": n, "actor": a, "version": v}),
                    );
                }
                Some(p) => {
                    let got: Vec<(u64, u64)> =
                        p.seqs.iter().map(|r| (r.start().0, r.end().0)).collect();
                    if got != exp {
                        return vio(
                            "C02",
                            "reloaded-partial-differs",
                            json!({"node": n, "actor": a, "version": v, "reloaded": got, "model": exp}),
                        );
                    }
                    let live_last = w
                        .node(n)
                        .bookie
                        .read::<&str, _>("sim(oracle)", None)
                        .await
                        .get(&actor)
                        .cloned();
                    if let Some(b) = live_last {
                        let br = b.read::<&str, _>("sim(oracle)", None).await;
                        if let Some(lp) = br.get_partial(&klukai_types::base::CrsqlDbVersion(*v)) {
                            if lp.last_seq != p.last_seq {
                                w.stats.probe("c02.last-seq-memory-vs-disk-differs");
                                if !vm.last_seq_conflict {
                                    return vio(
                                        "C02",
                                        "partial-last-seq-differs-memory-vs-disk",
                                        json!({"node": n, "actor": a, "version": v, "memory": lp.last_seq.0, "disk": p.last_seq.0}),
                                    );
                                }
                            }
                        }
                    }
                }
            }
        }
        let reloaded_need: Vec<(u64, u64)> = reloaded
            .needed()
            .iter()
            .map(|r| (r.start().0, r.end().0))
            .collect();
        if reloaded_need != mem_need {
            return vio(
                "C02",
                "reloaded-need-differs",
                json!({"node": n, "actor": a, "reloaded": reloaded_need, "memory": mem_need}),
            );
        }
        if reloaded.last().map(|v| v.0).unwrap_or(0) > head {
            return vio(
                "C02",
                "reloaded-head-beyond-memory",
                json!({"node": n, "actor": a, "reloaded": reloaded.last().map(|v| v.0), "memory": head}),
            );
        }
        if reloaded.last().map(|v| v.0).unwrap_or(0) < head {
            w.stats.probe("c02.reloaded-head-lower");
        }
    }
    // --- C03: tables == shadow (what corrosion applied == what was delivered for applied versions)
    let t_node = dump_tables(&conn, TABLES_T1)?;
    let t_shadow = dump_tables(&w.shadows[n].conn, TABLES_T1)?;
    if t_node != t_shadow {
        let class = classify_table_diff(&t_node, &t_shadow);
        return vio(
            "C03",
            class,
            json!({"node": n, "diff(node,reference)": first_diff(&t_node, &t_shadow)}),
        );
    }
    let c_node = dump_clock(&conn, true, &w.site_names)?;
    let c_shadow = dump_clock(&w.shadows[n].conn, true, &w.site_names)?;
    if c_node != c_shadow {
        return vio(
            "C03",
            "crdt-metadata-differs-from-reference",
            json!({"node": n, "diff(node,reference)": first_diff(&c_node, &c_shadow)}),
        );
    }
    drop(conn);
    // state coverage measure
    let mut h = 0xcbf2_9ce4_8422_2325;
    fnv(&mut h, serde_json::to_string(&cs).unwrap().as_bytes());
    if w.stats.states.len() < 4096 && !w.stats.states.contains(&h) {
        w.stats.states.push(h);
    }
    Ok(Ok(()))
}

fn classify_table_diff(node: &[String], shadow: &[String]) -> &'static str {
    let sn: BTreeSet<_> = node.iter().collect();
    let ss: BTreeSet<_> = shadow.iter().collect();
    if sn.difference(&ss).next().is_some() && ss.difference(&sn).next().is_none() {
        "visible-before-complete"
    } else if ss.difference(&sn).next().is_some() && sn.difference(&ss).next().is_none() {
        "applied-version-incomplete"
    } else {
        "tables-differ-from-reference"
    }
}

fn partial_mismatch_class(
    w: &World,
    n: usize,
    a: usize,
    got: &BTreeMap<u64, Vec<(u64, u64)>>,
    exp: &BTreeMap<u64, Vec<(u64, u64)>>,
) -> String {
    for (v, g) in got {
        match exp.get(v) {
            None => {
                let st = w.model[n]
                    .actors
                    .get(&a)
                    .and_then(|am| am.versions.get(v))
                    .map(|vm| vm.state.clone());
                return match st {
                    Some(VState::Applied) | Some(VState::Cleared) => {
                        "held-version-also-advertised-partial".to_string()
                    }
                    Some(VState::Partial) => "covered-version-advertised-with-gaps".to_string(),
                    None => "unknown-version-advertised-partial".to_string(),
                };
            }
            Some(e) if e != g => return "partial-missing-ranges-differ".to_string(),
            _ => {}
        }
    }
    "partial-version-not-advertised".to_string()
}

// ---------------------------------------------------------------------------
// C04: computed needs vs the two states (set model)

pub fn check_needs(
    w: &mut World,
    c: usize,
    s: usize,
    ours: &SyncStateV1,
    theirs: &SyncStateV1,
    needs: &HashMap<ActorId, Vec<SyncNeedV1>>,
) -> VRes<()> {
    w.stats.oracle_checks += 1;
    let co = w.canon(ours);
    let ct = w.canon(theirs);
    if needs.contains_key(&ours.actor_id) {
        return vio(
            "C04",
            "requested-own-actor",
            json!({"client": c, "server": s}),
        );
    }
    for (actor, ns) in needs.iter() {
        let Some(&a) = w.actor_idx.get(actor) else {
            return vio("C04", "requested-unknown-actor", json!({"client": c}));
        };
        let their_head = ct.heads.get(&a).copied().unwrap_or(0);
        for nd in ns {
            match nd {
                SyncNeedV1::Full { versions } => {
                    if versions.start().0 < 1
                        || versions.end().0 > their_head
                        || versions.end() < versions.start()
                    {
                        return vio(
                            "C04",
                            "request-outside-advertised-head",
                            json!({"client": c, "server": s, "actor": a, "range": [versions.start().0, versions.end().0], "their_head": their_head}),
                        );
                    }
                }
                SyncNeedV1::Partial { version, .. } => {
                    if version.0 < 1 || version.0 > their_head {
                        return vio(
                            "C04",
                            "request-outside-advertised-head",
                            json!({"client": c, "server": s, "actor": a, "version": version.0, "their_head": their_head}),
                        );
                    }
                }
                SyncNeedV1::Empty { .. } => {}
            }
        }
    }
    for (a, their_head) in ct.heads.iter() {
        if *a == c || *their_head == 0 {
            continue;
        }
        let actor = w.actors[*a];
        let mut have: RangeInclusiveSet<u64> = RangeInclusiveSet::new();
        have.insert(1..=*their_head);
        for (x, y) in ct.need.get(a).cloned().unwrap_or_default() {
            have.remove(x..=y);
        }
        let their_partial = ct.partial.get(a).cloned().unwrap_or_default();
        for v in their_partial.keys() {
            have.remove(*v..=*v);
        }
        let our_head = co.heads.get(a).copied().unwrap_or(0);
        let mut want: RangeInclusiveSet<u64> = RangeInclusiveSet::new();
        for (x, y) in co.need.get(a).cloned().unwrap_or_default() {
            want.insert(x..=y);
        }
        if *their_head > our_head {
            want.insert(our_head + 1..=*their_head);
        }
        let our_partial = co.partial.get(a).cloned().unwrap_or_default();
        let mut req_full: RangeInclusiveSet<u64> = RangeInclusiveSet::new();
        let mut req_partial: BTreeMap<u64, RangeInclusiveSet<u64>> = BTreeMap::new();
        for nd in needs.get(&actor).cloned().unwrap_or_default() {
            match nd {
                SyncNeedV1::Full { versions } => {
                    req_full.insert(versions.start().0..=versions.end().0);
                }
                SyncNeedV1::Partial { version, seqs } => {
                    let e = req_partial.entry(version.0).or_default();
                    for r in seqs {
                        e.insert(r.start().0..=r.end().0);
                    }
                }
                SyncNeedV1::Empty { .. } => {}
            }
        }
        // complete: every version we lack and they fully hold is requested
        for r in want.iter() {
            for v in *r.start()..=*r.end() {
                if have.contains(&v) && !req_full.contains(&v) {
                    return vio(
                        "C04",
                        "available-version-not-requested",
                        json!({"client": c, "server": s, "actor": a, "version": v, "ours": co, "theirs": ct}),
                    );
                }
            }
        }
        // sound: requested full versions are versions we lack
        for r in req_full.iter() {
            for v in *r.start()..=*r.end() {
                let lacking = want.contains(&v);
                if !lacking {
                    return vio(
                        "C04",
                        "requested-version-already-held",
                        json!({"client": c, "server": s, "actor": a, "version": v, "ours": co, "theirs": ct}),
                    );
                }
                if !have.contains(&v) && v <= our_head {
                    return vio(
                        "C04",
                        "requested-version-peer-does-not-hold",
                        json!({"client": c, "server": s, "actor": a, "version": v, "ours": co, "theirs": ct}),
                    );
                }
            }
        }
        // partials
        for (v, missing) in our_partial.iter() {
            let missing: BTreeSet<u64> = missing.iter().flat_map(|(x, y)| *x..=*y).collect();
            let requested: BTreeSet<u64> = req_partial
                .get(v)
                .map(|s| s.iter().flat_map(|r| *r.start()..=*r.end()).collect())
                .unwrap_or_default();
            if !requested.is_subset(&missing) {
                return vio(
                    "C04",
                    "requested-seqs-already-held",
                    json!({"client": c, "server": s, "actor": a, "version": v, "ours": co, "theirs": ct}),
                );
            }
            if have.contains(v) {
                if requested != missing {
                    return vio(
                        "C04",
                        "missing-seqs-not-requested",
                        json!({"client": c, "server": s, "actor": a, "version": v, "requested": requested, "missing": missing}),
                    );
                }
                w.stats.probe("c04.partial-from-full-holder");
            } else if let Some(tm) = their_partial.get(v) {
                let their_missing: BTreeSet<u64> = tm.iter().flat_map(|(x, y)| *x..=*y).collect();
                let max_end = their_missing
                    .iter()
                    .chain(missing.iter())
                    .max()
                    .copied()
                    .unwrap_or(0);
                let their_held: BTreeSet<u64> =
                    (0..=max_end).filter(|q| !their_missing.contains(q)).collect();
                let expect: BTreeSet<u64> = missing.intersection(&their_held).copied().collect();
                if !expect.is_subset(&requested) {
                    return vio(
                        "C04",
                        "missing-seqs-not-requested",
                        json!({"client": c, "server": s, "actor": a, "version": v, "requested": requested, "expected": expect}),
                    );
                }
                if !requested.is_subset(&their_held) {
                    return vio(
                        "C04",
                        "requested-seqs-peer-does-not-hold",
                        json!({"client": c, "server": s, "actor": a, "version": v, "requested": requested, "their_held": their_held}),
                    );
                }
                w.stats.probe("c04.partial-from-partial-holder");
            } else if !requested.is_empty() {
                return vio(
                    "C04",
                    "requested-seqs-peer-does-not-hold",
                    json!({"client": c, "server": s, "actor": a, "version": v}),
                );
            }
        }
        for v in req_partial.keys() {
            if !our_partial.contains_key(v) {
                return vio(
                    "C04",
                    "partial-request-for-non-partial-version",
                    json!({"client": c, "server": s, "actor": a, "version": v}),
                );
            }
        }
    }
    Ok(Ok(()))
}

// ---------------------------------------------------------------------------
// C05 / C08: what a sync server answered

pub async fn check_answers(
    w: &mut World,
    s: usize,
    fresh: &SyncStateV1,
    needs: &[(usize, SyncNeedV1)],
    answers: &[ChangeV1],
) -> VRes<()> {
    w.stats.oracle_checks += 1;
    let cs = w.canon(fresh);
    let conn = w.read_conn(s).await?;
    // index answers
    let mut full: BTreeMap<(usize, u64), Vec<(u64, u64, u64, &Vec<Change>)>> = BTreeMap::new();
    let mut empties: BTreeMap<usize, RangeInclusiveSet<u64>> = BTreeMap::new();
    for cv in answers {
        let Some(&a) = w.actor_idx.get(&cv.actor_id) else {
            return vio("C05", "answer-for-unknown-actor", json!({"server": s}));
        };
        match &cv.changeset {
            Changeset::Full {
                version,
                changes,
                seqs,
                last_seq,
                ..
            } => {
                for c in changes {
                    if c.seq < *seqs.start() || c.seq > *seqs.end() {
                        return vio(
                            "C05",
                            "change-outside-changeset-range",
                            json!({"server": s, "actor": a, "version": version.0, "seq": c.seq.0, "range": [seqs.start().0, seqs.end().0]}),
                        );
                    }
                }
                full.entry((a, version.0)).or_default().push((
                    seqs.start().0,
                    seqs.end().0,
                    last_seq.0,
                    changes,
                ));
            }
            Changeset::Empty { versions, .. } => {
                empties
                    .entry(a)
                    .or_default()
                    .insert(versions.start().0..=versions.end().0);
            }
            Changeset::EmptySet { .. } => {}
        }
    }
    // safety core: never declare empty what the server itself lists as needed/partial
    for (a, set) in empties.iter() {
        for r in set.iter() {
            for v in *r.start()..=*r.end() {
                let needed = cs
                    .need
                    .get(a)
                    .is_some_and(|ns| ns.iter().any(|(x, y)| *x <= v && v <= *y));
                let partial = cs.partial.get(a).is_some_and(|p| p.contains_key(&v));
                let beyond = v > cs.heads.get(a).copied().unwrap_or(0);
                if needed || partial || beyond {
                    return vio(
                        "C05",
                        "declared-empty-but-not-held",
                        json!({"server": s, "actor": a, "version": v, "needed": needed, "partial": partial, "beyond_head": beyond}),
                    );
                }
            }
        }
    }
    // how often each version was requested (overlapping range requests are answered per request)
    let mut mult: BTreeMap<(usize, u64), u32> = BTreeMap::new();
    for (a, nd) in needs {
        match nd {
            SyncNeedV1::Full { versions } => {
                for v in versions.start().0..=versions.end().0 {
                    *mult.entry((*a, v)).or_default() += 1;
                }
            }
            SyncNeedV1::Partial { version, .. } => {
                *mult.entry((*a, version.0)).or_default() += 1;
            }
            SyncNeedV1::Empty { .. } => {}
        }
    }
    let mut checked: BTreeSet<(usize, u64)> = BTreeSet::new();
    // per requested version
    let mut mentioned: BTreeSet<(usize, u64)> = BTreeSet::new();
    for (a, nd) in needs {
        let (v0, v1, req_seqs): (u64, u64, Option<Vec<(u64, u64)>>) = match nd {
            SyncNeedV1::Full { versions } => (versions.start().0, versions.end().0, None),
            SyncNeedV1::Partial { version, seqs } => (
                version.0,
                version.0,
                Some(seqs.iter().map(|r| (r.start().0, r.end().0)).collect()),
            ),
            SyncNeedV1::Empty { .. } => continue,
        };
        let head = cs.heads.get(a).copied().unwrap_or(0);
        for v in v0..=v1 {
            mentioned.insert((*a, v));
            if v > head {
                // beyond what the server advertised: must stay silent
                if full.contains_key(&(*a, v)) || empties.get(a).is_some_and(|e| e.contains(&v)) {
                    return vio(
                        "C05",
                        "answered-version-beyond-head",
                        json!({"server": s, "actor": a, "version": v}),
                    );
                }
                continue;
            }
            let state: Option<VState> = if *a == s {
                Some(VState::Applied)
            } else {
                w.model[s]
                    .actors
                    .get(a)
                    .and_then(|am| am.versions.get(&v))
                    .map(|vm| {
                        if vm.state == VState::Partial && vm.reverted {
                            // its changes are applied; only the bookkeeping regressed
                            VState::Applied
                        } else {
                            vm.state.clone()
                        }
                    })
            };
            if !checked.insert((*a, v)) {
                continue;
            }
            let m = mult.get(&(*a, v)).copied().unwrap_or(1);
            let mut chunks = full.get(&(*a, v)).cloned().unwrap_or_default();
            if m > 1 {
                // requested m times: every chunk may appear up to m times, identically
                let mut counts: BTreeMap<(u64, u64), u32> = BTreeMap::new();
                for c in chunks.iter() {
                    *counts.entry((c.0, c.1)).or_default() += 1;
                }
                if counts.values().any(|c| *c > m) {
                    return vio(
                        "C08",
                        "overlapping-chunks",
                        json!({"server": s, "actor": a, "version": v, "requested_times": m,
                               "ranges": chunks.iter().map(|c| (c.0, c.1)).collect::<Vec<_>>()}),
                    );
                }
                let mut seen_r: BTreeSet<(u64, u64)> = BTreeSet::new();
                let mut dedup = vec![];
                for c in chunks.into_iter() {
                    if seen_r.insert((c.0, c.1)) {
                        dedup.push(c);
                    } else if dedup.iter().any(|d: &(u64, u64, u64, &Vec<Change>)| d.0 == c.0 && d.1 == c.1 && d.3 != c.3) {
                        return vio(
                            "C05",
                            "repeated-answer-differs",
                            json!({"server": s, "actor": a, "version": v, "range": [c.0, c.1]}),
                        );
                    }
                }
                chunks = dedup;
                w.stats.probe("c08.version-requested-twice");
            }
            let declared_empty = empties.get(a).is_some_and(|e| e.contains(&v));
            // C08: ranges of one version never overlap
            let mut cover: BTreeMap<u64, u32> = BTreeMap::new();
            for (x, y, _, _) in chunks.iter() {
                if y < x {
                    return vio(
                        "C08",
                        "inverted-chunk-range",
                        json!({"server": s, "actor": a, "version": v, "range": [x, y]}),
                    );
                }
                for q in *x..=*y {
                    *cover.entry(q).or_default() += 1;
                }
            }
            if cover.values().any(|c| *c > 1) {
                return vio(
                    "C08",
                    "overlapping-chunks",
                    json!({"server": s, "actor": a, "version": v, "ranges": chunks.iter().map(|c| (c.0, c.1)).collect::<Vec<_>>()}),
                );
            }
            let covered: BTreeSet<u64> = cover.keys().copied().collect();
            let sent: Vec<&Change> = {
                let mut cs: Vec<&(u64, u64, u64, &Vec<Change>)> = chunks.iter().collect();
                cs.sort_by_key(|c| c.0);
                cs.into_iter().flat_map(|c| c.3.iter()).collect()
            };
            match state {
                None => {
                    if !chunks.is_empty() || declared_empty {
                        return vio(
                            "C05",
                            "answered-version-not-held",
                            json!({"server": s, "actor": a, "version": v, "declared_empty": declared_empty, "chunks": chunks.len()}),
                        );
                    }
                    w.stats.probe("c05.silent-on-needed");
                }
                Some(VState::Partial) => {
                    if declared_empty {
                        return vio(
                            "C05",
                            "declared-empty-but-partially-held",
                            json!({"server": s, "actor": a, "version": v}),
                        );
                    }
                    let vm = &w.model[s].actors[a].versions[&v];
                    let stored: BTreeSet<u64> =
                        vm.ranges.iter().flat_map(|r| *r.start()..=*r.end()).collect();
                    let expect: BTreeSet<u64> = match &req_seqs {
                        None => stored.clone(),
                        Some(rq) => {
                            // the server answers with the stored ranges that intersect the request, scoped to the request
                            let rqs: BTreeSet<u64> = rq.iter().flat_map(|(x, y)| *x..=*y).collect();
                            stored.intersection(&rqs).copied().collect()
                        }
                    };
                    if !covered.is_subset(&stored) {
                        return vio(
                            "C05",
                            "sent-ranges-not-buffered",
                            json!({"server": s, "actor": a, "version": v, "sent": covered, "stored": stored}),
                        );
                    }
                    if covered != expect {
                        return vio(
                            "C05",
                            "buffered-ranges-not-sent-exactly",
                            json!({"server": s, "actor": a, "version": v, "sent": covered, "expected": expect}),
                        );
                    }
                    let exp_changes: Vec<&Change> = vm
                        .changes
                        .values()
                        .filter(|c| covered.contains(&c.seq.0))
                        .collect();
                    if !same_changes(&sent, &exp_changes) {
                        return vio(
                            "C05",
                            "buffered-changes-differ",
                            json!({"server": s, "actor": a, "version": v, "sent": sent.len(), "expected": exp_changes.len()}),
                        );
                    }
                    w.stats.probe("c05.served-partial");
                }
                Some(VState::Applied) | Some(VState::Cleared) => {
                    let live = read_version_changes(&conn, w.actors[*a], v)?;
                    if live.is_empty() {
                        let stale = if *a == s {
                            None
                        } else {
                            w.model[s]
                                .actors
                                .get(a)
                                .and_then(|am| am.versions.get(&v))
                                .filter(|vm| vm.stale_rows || vm.reverted)
                        };
                        let stale_served = !chunks.is_empty()
                            && stale.is_some_and(|vm| {
                                covered.iter().all(|q| vm.ranges.contains(q))
                                    && sent.iter().all(|c| vm.changes.get(&c.seq.0) == Some(*c))
                            });
                        if stale_served {
                            w.stats.probe("c05.stale-buffered-rows-served");
                            let sig = "C05:stale-buffered-rows-served-for-held-overwritten-version".to_string();
                            if !w.known_hits.contains(&sig) {
                                w.known_hits.push(sig);
                            }
                            continue;
                        }
                        if sent.iter().next().is_some() {
                            return vio(
                                "C05",
                                "sent-changes-not-live",
                                json!({"server": s, "actor": a, "version": v}),
                            );
                        }
                        if req_seqs.is_none() && !declared_empty {
                            // lingering buffered rows of an applied version are served as buffered
                            // ranges; that is not "held with no live changes" silence.
                            if chunks.is_empty() {
                                return vio(
                                    "C05",
                                    "held-empty-version-not-declared-empty",
                                    json!({"server": s, "actor": a, "version": v}),
                                );
                            }
                        }
                        w.stats.probe("c05.declared-empty");
                    } else {
                        if declared_empty {
                            return vio(
                                "C05",
                                "declared-empty-but-has-live-changes",
                                json!({"server": s, "actor": a, "version": v, "live": live.len()}),
                            );
                        }
                        let last = live.last().unwrap().seq.0;
                        let expect_cover: BTreeSet<u64> = match &req_seqs {
                            None => (0..=last).collect(),
                            Some(rq) => rq.iter().flat_map(|(x, y)| *x..=*y).collect(),
                        };
                        if covered != expect_cover {
                            return vio(
                                "C08",
                                "answer-not-tiling-requested-range",
                                json!({"server": s, "actor": a, "version": v,
                                       "ranges": chunks.iter().map(|c| (c.0, c.1)).collect::<Vec<_>>(),
                                       "expected": range_list(&expect_cover)}),
                            );
                        }
                        for (_, _, ls, _) in chunks.iter() {
                            if *ls != last {
                                return vio(
                                    "C05",
                                    "wrong-last-seq",
                                    json!({"server": s, "actor": a, "version": v, "sent": ls, "live_max_seq": last}),
                                );
                            }
                        }
                        let exp_changes: Vec<&Change> = live
                            .iter()
                            .filter(|c| expect_cover.contains(&c.seq.0))
                            .collect();
                        if !same_changes(&sent, &exp_changes) {
                            return vio(
                                "C05",
                                "sent-changes-differ-from-live",
                                json!({"server": s, "actor": a, "version": v, "sent": sent.len(), "live": exp_changes.len()}),
                            );
                        }
                        if chunks.len() > 1 {
                            w.stats.probe("c05.multi-chunk-answer");
                        }
                        if (live.len() as u64) < last + 1 {
                            w.stats.probe("c05.served-overwritten-version");
                        }
                        w.stats.probe("c05.served-full");
                    }
                }
            }
        }
    }
    // nothing unrequested
    for (a, v) in full.keys() {
        if !mentioned.contains(&(*a, *v)) {
            return vio(
                "C05",
                "unrequested-version-sent",
                json!({"server": s, "actor": a, "version": v}),
            );
        }
    }
    Ok(Ok(()))
}

/// What a server holds, read from the node itself (used for sync sessions that overlap
/// other activity on the server).
#[derive(Clone, Default)]
pub struct ServerView {
    pub canon: super::exec::CanonState,
    pub live: BTreeMap<(usize, u64), Vec<Change>>,
    pub buffered: BTreeMap<(usize, u64), Vec<Change>>,
    /// stored seq ranges of buffered chunks (a range may carry no rows at all)
    pub seq_ranges: BTreeMap<(usize, u64), Vec<(u64, u64)>>,
}

pub async fn server_view(w: &World, s: usize) -> R<ServerView> {
    let st = w.node(s).sync_state().await;
    let canon = w.canon(&st);
    let conn = w.read_conn(s).await?;
    let mut view = ServerView { canon, ..Default::default() };
    for (table, dest) in [("crsql_changes", &mut view.live), ("__corro_buffered_changes", &mut view.buffered)] {
        let mut stmt = conn.prepare(&format!(
            r#"SELECT "table", pk, cid, val, col_version, db_version, seq, site_id, cl FROM {table} ORDER BY site_id, db_version, seq"#
        ))?;
        let rows = stmt.query_map([], klukai_types::change::row_to_change)?;
        for c in rows {
            let c = c?;
            let Some(&a) = w.actor_idx.get(&ActorId::from_bytes(c.site_id)) else { continue };
            dest.entry((a, c.db_version.0)).or_default().push(c);
        }
    }
    {
        let mut stmt = conn.prepare("SELECT site_id, db_version, start_seq, end_seq FROM __corro_seq_bookkeeping ORDER BY 1, 2, 3")?;
        let rows = stmt.query_map([], |r| Ok((r.get::<_, ActorId>(0)?, r.get::<_, u64>(1)?, r.get::<_, u64>(2)?, r.get::<_, u64>(3)?)))?;
        for r in rows {
            let (site, v, x, y) = r?;
            let Some(&a) = w.actor_idx.get(&site) else { continue };
            view.seq_ranges.entry((a, v)).or_default().push((x, y));
        }
    }
    Ok(view)
}

impl ServerView {
    fn may_declare_empty(&self, a: usize, v: u64) -> bool {
        let needed = self.canon.need.get(&a).is_some_and(|ns| ns.iter().any(|(x, y)| *x <= v && v <= *y));
        let partial = self.canon.partial.get(&a).is_some_and(|p| p.contains_key(&v));
        let beyond = v > self.canon.heads.get(&a).copied().unwrap_or(0);
        !needed && !partial && !beyond && !self.live.contains_key(&(a, v))
    }

    fn may_send(&self, a: usize, v: u64, x: u64, y: u64, last_seq: u64, changes: &[Change]) -> bool {
        let within = |src: &Vec<Change>| -> Vec<Change> { src.iter().filter(|c| c.seq.0 >= x && c.seq.0 <= y).cloned().collect() };
        if let Some(live) = self.live.get(&(a, v)) {
            if live.last().map(|c| c.seq.0) == Some(last_seq) && within(live) == changes {
                return true;
            }
        }
        if let Some(buf) = self.buffered.get(&(a, v)) {
            if within(buf) == changes {
                return true;
            }
        }
        // a stored range may carry no rows at all (they were overwritten at the supplier):
        // then there is nothing in the buffer table for it
        if changes.is_empty() && self.seq_ranges.get(&(a, v)).is_some_and(|rs| rs.iter().any(|(r0, r1)| *r0 <= x && y <= *r1)) {
            return !self.buffered.get(&(a, v)).is_some_and(|buf| !within(buf).is_empty());
        }
        false
    }
}

/// C05 for a session that overlapped other activity on the server: every answer must be
/// right for the server's state before or after that activity (each need is answered from
/// one snapshot; which one is the server's choice).
pub async fn check_answers_mid(
    w: &mut World,
    s: usize,
    pre: &ServerView,
    needs: &[(usize, SyncNeedV1)],
    answers: &[ChangeV1],
) -> VRes<()> {
    w.stats.oracle_checks += 1;
    let post = server_view(w, s).await?;
    let requested = |a: usize, v: u64| {
        needs.iter().any(|(na, nd)| {
            *na == a
                && match nd {
                    SyncNeedV1::Full { versions } => versions.start().0 <= v && v <= versions.end().0,
                    SyncNeedV1::Partial { version, .. } => version.0 == v,
                    SyncNeedV1::Empty { .. } => false,
                }
        })
    };
    for cv in answers {
        let Some(&a) = w.actor_idx.get(&cv.actor_id) else {
            return vio("C05", "answer-for-unknown-actor", json!({"server": s}));
        };
        match &cv.changeset {
            Changeset::Empty { versions, .. } => {
                for v in versions.start().0..=versions.end().0 {
                    if !pre.may_declare_empty(a, v) && !post.may_declare_empty(a, v) {
                        return vio(
                            "C05",
                            "declared-empty-but-not-empty-before-or-after-concurrent-activity",
                            json!({"server": s, "actor": a, "version": v,
                                   "live_before": pre.live.contains_key(&(a, v)), "live_after": post.live.contains_key(&(a, v))}),
                        );
                    }
                    if !requested(a, v) {
                        return vio("C05", "unrequested-answer", json!({"server": s, "actor": a, "version": v}));
                    }
                }
                w.stats.probe("c05.mid.empty-checked");
            }
            Changeset::Full { version, changes, seqs, last_seq, .. } => {
                let (x, y) = (seqs.start().0, seqs.end().0);
                if !pre.may_send(a, version.0, x, y, last_seq.0, changes) && !post.may_send(a, version.0, x, y, last_seq.0, changes) {
                    return vio(
                        "C05",
                        "answer-matches-neither-state-before-nor-after-concurrent-activity",
                        json!({"server": s, "actor": a, "version": version.0, "range": [x, y], "changes": changes.len(), "last_seq": last_seq.0,
                               "live_before": pre.live.get(&(a, version.0)).map(|l| (l.len(), l.last().map(|c| c.seq.0))),
                               "live_after": post.live.get(&(a, version.0)).map(|l| (l.len(), l.last().map(|c| c.seq.0))),
                               "buffered_rows_before": pre.buffered.get(&(a, version.0)).map(|l| l.len()),
                               "buffered_rows_after": post.buffered.get(&(a, version.0)).map(|l| l.len()),
                               "missing_before": pre.canon.partial.get(&a).and_then(|p| p.get(&version.0)),
                               "missing_after": post.canon.partial.get(&a).and_then(|p| p.get(&version.0))}),
                    );
                }
                if !requested(a, version.0) {
                    return vio("C05", "unrequested-answer", json!({"server": s, "actor": a, "version": version.0}));
                }
                w.stats.probe("c05.mid.full-checked");
            }
            Changeset::EmptySet { .. } => {}
        }
    }
    Ok(Ok(()))
}

fn same_changes(a: &[&Change], b: &[&Change]) -> bool {
    a.len() == b.len() && a.iter().zip(b.iter()).all(|(x, y)| **x == **y)
}

fn range_list(s: &BTreeSet<u64>) -> Vec<(u64, u64)> {
    let mut set = RangeInclusiveSet::new();
    for q in s {
        set.insert(*q..=*q);
    }
    rs(&set)
}

/// C08 (second sentence): sub-ranges of a version range request.
pub fn check_chunk_range(
    w: &mut World,
    range: &std::ops::RangeInclusive<klukai_types::base::CrsqlDbVersion>,
    parts: &[std::ops::RangeInclusive<klukai_types::base::CrsqlDbVersion>],
) -> VRes<()> {
    w.stats.oracle_checks += 1;
    let mut union: RangeInclusiveSet<u64> = RangeInclusiveSet::new();
    for p in parts {
        if p.end() < p.start() || p.start() < range.start() || p.end() > range.end() {
            return vio(
                "C08",
                "version-sub-range-outside-request",
                json!({"requested": [range.start().0, range.end().0], "part": [p.start().0, p.end().0]}),
            );
        }
        union.insert(p.start().0..=p.end().0);
    }
    let got = rs(&union);
    if got != vec![(range.start().0, range.end().0)] {
        return vio(
            "C08",
            "version-sub-ranges-do-not-cover-request",
            json!({"requested": [range.start().0, range.end().0], "union": got}),
        );
    }
    if parts.len() > 1 {
        w.stats.probe("c08.version-range-split");
    }
    Ok(Ok(()))
}

// ---------------------------------------------------------------------------
// C01: convergence

pub async fn world_digest(w: &World) -> R<u64> {
    let mut h = 0xcbf2_9ce4_8422_2325;
    for n in 0..w.n() {
        if !w.live(n) {
            continue;
        }
        let conn = w.read_conn(n).await?;
        for l in dump_tables(&conn, TABLES_T1)? {
            fnv(&mut h, l.as_bytes());
        }
        for l in dump_clock(&conn, true, &w.site_names)? {
            fnv(&mut h, l.as_bytes());
        }
        for sql in [
            "SELECT hex(actor_id), start, end FROM __corro_bookkeeping_gaps ORDER BY 1,2",
            "SELECT hex(site_id), db_version, start_seq, end_seq FROM __corro_seq_bookkeeping ORDER BY 1,2,3",
            "SELECT hex(site_id), db_version, seq, 0 FROM __corro_buffered_changes ORDER BY 1,2,3",
        ] {
            let mut st = conn.prepare(sql)?;
            let mut rows = st.query([])?;
            while let Some(r) = rows.next()? {
                let a: String = r.get(0)?;
                let b: i64 = r.get(1)?;
                let c: i64 = r.get(2)?;
                fnv(&mut h, format!("{a}|{b}|{c}").as_bytes());
            }
        }
        let st = w.node(n).sync_state().await;
        fnv(&mut h, serde_json::to_string(&w.canon(&st)).unwrap().as_bytes());
        fnv(
            &mut h,
            format!(
                "{}|{}",
                w.node(n).apply_backlog.len(),
                w.node(n).clear_backlog.len()
            )
            .as_bytes(),
        );
    }
    Ok(h)
}

/// Ok(Ok(true)) converged; Ok(Ok(false)) not yet; violation if the sync states
/// are clean yet the contents differ.
pub async fn check_converged(w: &mut World) -> VRes<bool> {
    w.stats.oracle_checks += 1;
    let mut clean = true;
    let mut why = json!(null);
    for n in 0..w.n() {
        if !w.live(n) {
            return Ok(Ok(false));
        }
        let st = w.node(n).sync_state().await;
        let cs = w.canon(&st);
        if cs.need.values().any(|v| !v.is_empty()) || cs.partial.values().any(|p| !p.is_empty()) {
            clean = false;
            why = json!({"node": n, "state": cs});
        }
        for a in 0..w.n() {
            if cs.heads.get(&a).copied().unwrap_or(0) != w.own_head[a] {
                clean = false;
                why = json!({"node": n, "actor": a, "head": cs.heads.get(&a), "origin_head": w.own_head[a]});
            }
        }
        if !w.node(n).apply_backlog.is_empty() {
            clean = false;
        }
    }
    if !clean {
        w.stats.probes.insert("last-unclean".into(), 0);
        let _ = why;
        return Ok(Ok(false));
    }
    let ref_tables = dump_tables(&w.reference.conn, TABLES_T1)?;
    let ref_clock = dump_clock(&w.reference.conn, false, &w.site_names)?;
    let mut first: Option<(Vec<String>, Vec<String>)> = None;
    for n in 0..w.n() {
        let conn = w.read_conn(n).await?;
        let t = dump_tables(&conn, TABLES_T1)?;
        let c = dump_clock(&conn, false, &w.site_names)?;
        if let Some((t0, c0)) = &first {
            if *t0 != t {
                return vio(
                    "C01",
                    "replicas-diverged",
                    json!({"nodes": [0, n], "diff": first_diff(t0, &t)}),
                );
            }
            if *c0 != c {
                return vio(
                    "C01",
                    "replica-crdt-versions-diverged",
                    json!({"nodes": [0, n], "diff": first_diff(c0, &c)}),
                );
            }
        } else {
            first = Some((t.clone(), c.clone()));
        }
        if t != ref_tables {
            return vio(
                "C01",
                "differs-from-merge-of-acknowledged-transactions",
                json!({"node": n, "diff(node,reference)": first_diff(&t, &ref_tables)}),
            );
        }
        if c != ref_clock {
            return vio(
                "C01",
                "crdt-versions-differ-from-merge-of-acknowledged-transactions",
                json!({"node": n, "diff(node,reference)": first_diff(&c, &ref_clock)}),
            );
        }
    }
    Ok(Ok(true))
}

/// C03 final clause: no buffered leftovers once everything is applied.
pub async fn check_no_leftovers(w: &mut World) -> VRes<()> {
    for n in 0..w.n() {
        let conn = w.read_conn(n).await?;
        let b: i64 = conn.query_row("SELECT count(*) FROM __corro_buffered_changes", [], |r| r.get(0))?;
        let s: i64 = conn.query_row("SELECT count(*) FROM __corro_seq_bookkeeping", [], |r| r.get(0))?;
        if b != 0 || s != 0 {
            return vio(
                "C03",
                "buffered-leftovers-after-convergence",
                json!({"node": n, "buffered_rows": b, "seq_rows": s}),
            );
        }
    }
    Ok(Ok(()))
}

#[allow(dead_code)]
pub fn seq(v: u64) -> CrsqlSeq {
    CrsqlSeq(v)
}

#[allow(unused_imports)]
use tri as _tri;
