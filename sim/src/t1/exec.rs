//! The executor: a pure function of (event list, code under test).

use std::{
    collections::{BTreeMap, BTreeSet, HashMap},
    path::PathBuf,
};

use rangemap::RangeInclusiveSet;

use klukai_types::{
    actor::ActorId,
    base::{CrsqlDbVersion, CrsqlSeq},
    broadcast::{ChangeSource, ChangeV1, Changeset},
    change::Change,
    sync::{SyncNeedV1, SyncRequestV1, SyncStateV1},
};
use serde_json::json;

use super::{Event, Msg, MsgKey, Pool, RunCfg, SyncFaults};
use crate::{
    SimError,
    model::{
        ActorModel, NodeModel, SCHEMA_T1, Shadow, Stmt, TABLES_T1, VState, VerModel, dump_tables,
        read_version_changes,
    },
    node::{Knobs, Node, R, changeset_msgs, seeded_actor, snapshot_dir, stmt},
    trace::{Stats, Violation, fnv},
};

/// Canonical (sorted, index-based) rendering of a sync state.
#[derive(Clone, Debug, Default, PartialEq, serde::Serialize)]
pub struct CanonState {
    pub heads: BTreeMap<usize, u64>,
    pub need: BTreeMap<usize, Vec<(u64, u64)>>,
    pub partial: BTreeMap<usize, BTreeMap<u64, Vec<(u64, u64)>>>,
}

pub struct World {
    pub seed: u64,
    pub cfg: RunCfg,
    pub run_dir: PathBuf,
    pub nodes: Vec<Option<Node>>,
    pub dirs: Vec<PathBuf>,
    pub incarnation: Vec<u32>,
    pub actors: Vec<ActorId>,
    pub actor_idx: BTreeMap<ActorId, usize>,
    pub site_names: BTreeMap<[u8; 16], String>,
    pub shadows: Vec<Shadow>,
    pub reference: Shadow,
    pub model: Vec<NodeModel>,
    pub own_head: Vec<u64>,
    /// reference copy of every acknowledged version, taken at the origin right after commit
    pub origin_log: Vec<BTreeMap<u64, (Vec<Change>, u64, klukai_types::broadcast::Timestamp)>>,
    /// announcements held back: (node, version, what the transaction committed)
    pub held: Vec<(usize, u64, Vec<Change>)>,
    pub pool: Pool,
    pub delivered: Vec<BTreeSet<MsgKey>>,
    key_counts: BTreeMap<String, u32>,
    pub last_state: Vec<Option<SyncStateV1>>,
    pub stats: Stats,
    pub log: Vec<String>,
    pub tags: BTreeSet<String>,
    pub known_hits: Vec<String>,
    pub healed: bool,
    pub round_digests: Vec<u64>,
    pub knobs: Knobs,
    pub step: usize,
    /// (node, actor) pairs whose head went down at a restart (non-impactful versions are
    /// not recorded durably); stored gap rows may then lie beyond the head for a while
    pub regressed: BTreeSet<(usize, usize)>,
}

/// versions already handled earlier in the same batch (the node's in-batch dedupe):
/// None = handled as a whole version, Some(ranges) = these seqs were buffered
pub type BatchSeen = BTreeMap<(usize, u64), Option<rangemap::RangeInclusiveSet<u64>>>;

pub fn vio<T>(property: &str, class: &str, detail: serde_json::Value) -> R<Result<T, Violation>> {
    Ok(Err(Violation::new(property, class, detail)))
}

/// Step result: Ok(Ok(())) fine, Ok(Err(v)) violation, Err(_) harness error.
pub type StepRes = R<Result<(), Violation>>;

macro_rules! tri {
    ($e:expr) => {
        match $e? {
            Ok(v) => v,
            Err(violation) => return Ok(Err(violation)),
        }
    };
}
pub(crate) use tri;

impl World {
    pub async fn new(seed: u64, cfg: RunCfg, run_dir: PathBuf) -> R<World> {
        std::fs::create_dir_all(&run_dir)?;
        klukai_types::verif::lock_trace_start();
        let _ = klukai_types::verif::applied_take();
        klukai_types::verif::gates_clear();
        let n = cfg.nodes;
        let actors: Vec<ActorId> = (0..n).map(|i| seeded_actor(seed, i)).collect();
        let mut site_names = BTreeMap::new();
        let mut actor_idx = BTreeMap::new();
        for (i, a) in actors.iter().enumerate() {
            site_names.insert(a.to_bytes(), format!("a{i}"));
            actor_idx.insert(*a, i);
        }
        let knobs = Knobs::default();
        let mut nodes = vec![];
        let mut dirs = vec![];
        let mut shadows = vec![];
        for i in 0..n {
            let dir = run_dir.join(format!("n{i}-0"));
            let node = Node::boot(i, dir.clone(), actors[i], knobs.clone()).await?;
            let (status, resp) = node
                .schema(SCHEMA_T1.iter().map(|s| s.to_string()).collect())
                .await;
            if status != 200 {
                return Err(SimError::Harness(format!(
                    "schema rejected: {status} {:?}",
                    resp.results
                )));
            }
            nodes.push(Some(node));
            dirs.push(dir);
            shadows.push(Shadow::create(
                &run_dir.join(format!("shadow{i}.db")),
                actors[i],
                SCHEMA_T1,
                TABLES_T1,
            )?);
        }
        let reference = Shadow::create(
            &run_dir.join("reference.db"),
            seeded_actor(seed, 200),
            SCHEMA_T1,
            TABLES_T1,
        )?;
        Ok(World {
            seed,
            cfg,
            run_dir,
            nodes,
            dirs,
            incarnation: vec![0; n],
            actors,
            actor_idx,
            site_names,
            shadows,
            reference,
            model: vec![NodeModel::default(); n],
            own_head: vec![0; n],
            origin_log: vec![BTreeMap::new(); n],
            held: vec![],
            pool: Pool::new(),
            delivered: vec![BTreeSet::new(); n],
            key_counts: BTreeMap::new(),
            last_state: vec![None; n],
            stats: Stats::default(),
            log: vec![],
            tags: BTreeSet::new(),
            known_hits: vec![],
            healed: false,
            round_digests: vec![],
            knobs,
            step: 0,
            regressed: BTreeSet::new(),
        })
    }

    pub fn n(&self) -> usize {
        self.cfg.nodes
    }

    pub fn live(&self, i: usize) -> bool {
        i < self.nodes.len() && self.nodes[i].is_some()
    }

    pub fn node(&self, i: usize) -> &Node {
        self.nodes[i].as_ref().unwrap()
    }

    pub fn node_mut(&mut self, i: usize) -> &mut Node {
        self.nodes[i].as_mut().unwrap()
    }

    pub fn logln(&mut self, s: String) {
        if std::env::var_os("VERIF_TRACE").is_some() {
            eprintln!("[{}] {s}", self.step);
        }
        self.log.push(s);
    }

    pub fn log_digest(&self) -> u64 {
        let mut h = 0xcbf2_9ce4_8422_2325;
        for l in &self.log {
            fnv(&mut h, l.as_bytes());
            fnv(&mut h, b"\n");
        }
        h
    }

    pub fn canon(&self, st: &SyncStateV1) -> CanonState {
        let mut c = CanonState::default();
        for (a, h) in st.heads.iter() {
            if let Some(i) = self.actor_idx.get(a) {
                c.heads.insert(*i, h.0);
            }
        }
        for (a, ranges) in st.need.iter() {
            if let Some(i) = self.actor_idx.get(a) {
                let mut v: Vec<(u64, u64)> =
                    ranges.iter().map(|r| (r.start().0, r.end().0)).collect();
                v.sort();
                c.need.insert(*i, v);
            }
        }
        for (a, m) in st.partial_need.iter() {
            if let Some(i) = self.actor_idx.get(a) {
                let mut bm = BTreeMap::new();
                for (v, ranges) in m.iter() {
                    let mut r: Vec<(u64, u64)> =
                        ranges.iter().map(|r| (r.start().0, r.end().0)).collect();
                    r.sort();
                    bm.insert(v.0, r);
                }
                c.partial.insert(*i, bm);
            }
        }
        c
    }

    fn add_msg(&mut self, dest: Option<usize>, from: usize, class: &str, change: ChangeV1) -> MsgKey {
        let actor = *self.actor_idx.get(&change.actor_id).unwrap_or(&999);
        let (v0, v1) = {
            let r = change.versions();
            (r.start().0, r.end().0)
        };
        let seqs = change.seqs().map(|r| (r.start().0, r.end().0));
        let mut key = MsgKey {
            dest,
            from,
            actor,
            v0,
            v1,
            seqs,
            class: class.to_string(),
            n: 0,
        };
        let base = key.to_string();
        let cnt = self.key_counts.entry(base).or_insert(0);
        key.n = *cnt;
        *cnt += 1;
        let msg = Msg {
            key: key.clone(),
            last_seq: change.last_seq().map(|s| s.0),
            n_changes: change.changes().len(),
            change,
        };
        self.pool.insert(key.clone(), msg);
        key
    }

    pub fn visible_undelivered(&self, node: usize) -> Vec<MsgKey> {
        self.pool
            .keys()
            .filter(|k| k.dest.is_none_or(|d| d == node))
            .filter(|k| k.actor != node)
            .filter(|k| !self.delivered[node].contains(*k))
            .cloned()
            .collect()
    }

    // -----------------------------------------------------------------------

    pub async fn exec(&mut self, ev: &Event) -> StepRes {
        self.step += 1;
        self.stats.steps += 1;
        self.stats.ev(ev.kind());
        if std::env::var_os("VERIF_TRACE").is_some() {
            eprintln!("[{}] EVENT {}", self.step, serde_json::to_string(ev).unwrap_or_default().chars().take(300).collect::<String>());
        }
        let r = self.exec_inner(ev).await?;
        match r {
            Ok(()) => Ok(Ok(())),
            Err(mut v) => {
                v.step = self.step;
                if std::env::var_os("VERIF_DUMP").is_some() {
                    for n in 0..self.n() {
                        if !self.live(n) {
                            continue;
                        }
                        let conn = self.read_conn(n).await?;
                        eprintln!("--- node {n} crsql_changes");
                        for l in crate::model::dump_clock(&conn, true, &self.site_names)? {
                            eprintln!("    {l}");
                        }
                        eprintln!("--- shadow {n} crsql_changes");
                        for l in crate::model::dump_clock(&self.shadows[n].conn, true, &self.site_names)? {
                            eprintln!("    {l}");
                        }
                    }
                }
                Ok(Err(v))
            }
        }
    }

    async fn exec_inner(&mut self, ev: &Event) -> StepRes {
        match ev {
            Event::Write { node, stmts, hold } => self.ev_write(*node, stmts, *hold).await,
            Event::ReleaseAnnouncements => self.ev_release_announcements().await,
            Event::Deliver { node, msgs } => self.ev_deliver(*node, msgs.clone()).await,
            Event::DeliverAll { node, batch } => {
                if !self.live(*node) {
                    return Ok(Ok(()));
                }
                let keys = self.visible_undelivered(*node);
                for chunk in keys.chunks((*batch).max(1)) {
                    tri!(self.ev_deliver(*node, chunk.to_vec()).await);
                }
                Ok(Ok(()))
            }
            Event::Apply {
                node,
                actor,
                version,
            } => self.ev_apply(*node, *actor, *version).await,
            Event::ApplyAll { node } => {
                if !self.live(*node) {
                    return Ok(Ok(()));
                }
                // applying can never create new triggers, but loop to be safe
                for _ in 0..4 {
                    let backlog: Vec<_> = self.node(*node).apply_backlog.clone();
                    if backlog.is_empty() {
                        break;
                    }
                    for (a, v) in backlog {
                        let ai = *self.actor_idx.get(&a).unwrap_or(&999);
                        tri!(self.ev_apply(*node, ai, v.0).await);
                    }
                }
                Ok(Ok(()))
            }
            Event::ClearBuf {
                node,
                actor,
                v0,
                v1,
            } => self.ev_clear(*node, *actor, *v0, *v1).await,
            Event::ClearAll { node } => {
                if !self.live(*node) {
                    return Ok(Ok(()));
                }
                let backlog: Vec<_> = self.node(*node).clear_backlog.clone();
                for (a, r) in backlog {
                    let ai = *self.actor_idx.get(&a).unwrap_or(&999);
                    tri!(self.ev_clear(*node, ai, r.start().0, r.end().0).await);
                }
                Ok(Ok(()))
            }
            Event::Sync {
                client,
                server,
                faults,
            } => self.ev_sync(*client, *server, faults).await,
            Event::WireSync { client, servers } => self.ev_wire_sync(*client, servers).await,
            Event::Recut {
                origin,
                version,
                cuts,
                live,
            } => {
                let Some((changes, last_seq, ts)) = self
                    .origin_log
                    .get(*origin)
                    .and_then(|l| l.get(version))
                    .cloned()
                else {
                    return Ok(Ok(()));
                };
                // rows of this version still live at the origin (None: dense copy)
                let live_seqs: Option<std::collections::BTreeSet<u64>> = if *live && self.live(*origin) {
                    let conn = self.read_conn(*origin).await?;
                    let l: std::collections::BTreeSet<u64> = crate::model::read_version_changes(&conn, self.actors[*origin], *version)?
                        .iter()
                        .map(|c| c.seq.0)
                        .collect();
                    if l.is_empty() {
                        // wholly overwritten: a holder serves that as an Empty, not as chunks
                        return Ok(Ok(()));
                    }
                    Some(l)
                } else {
                    None
                };
                for (a, b) in cuts {
                    if a > b || *b > last_seq {
                        continue;
                    }
                    let part: Vec<Change> = changes
                        .iter()
                        .filter(|c| c.seq.0 >= *a && c.seq.0 <= *b)
                        .filter(|c| live_seqs.as_ref().map_or(true, |l| l.contains(&c.seq.0)))
                        .cloned()
                        .collect();
                    if part.is_empty() && (live_seqs.is_none() || (*a == 0 && *b == last_seq)) {
                        // the real chunker never emits an empty chunk for a dense version
                        continue;
                    }
                    if part.is_empty() {
                        self.stats.fault("recut-empty-chunk");
                    }
                    let change = ChangeV1 {
                        actor_id: self.actors[*origin],
                        changeset: Changeset::Full {
                            version: CrsqlDbVersion(*version),
                            changes: part,
                            seqs: CrsqlSeq(*a)..=CrsqlSeq(*b),
                            last_seq: CrsqlSeq(last_seq),
                            ts,
                        },
                    };
                    let k = self.add_msg(None, *origin, "r", change);
                    self.logln(format!("  recut -> {k}"));
                    self.stats.fault("recut-chunk");
                }
                Ok(Ok(()))
            }
            Event::Drop { msgs } => {
                for k in msgs {
                    if self.pool.remove(k).is_some() {
                        self.stats.fault("drop");
                    }
                }
                Ok(Ok(()))
            }
            Event::Crash { node, lose_outbox } => self.ev_crash(*node, *lose_outbox).await,
            Event::Restart { node } => self.ev_restart(*node).await,
            Event::Heal => {
                tri!(self.ev_release_announcements().await);
                self.healed = true;
                // every down node comes back
                for i in 0..self.n() {
                    if !self.live(i) {
                        tri!(self.boot(i).await);
                    }
                }
                Ok(Ok(()))
            }
            Event::FairRound => self.ev_fair_round().await,
        }
    }

    // -----------------------------------------------------------------------
    // Write

    /// Held-back announcements are made now: each must still tile its version and carry
    /// exactly the rows of it that are live at this moment.
    async fn ev_release_announcements(&mut self) -> StepRes {
        klukai_types::verif::gate_release("bcast");
        let held = std::mem::take(&mut self.held);
        for n in 0..self.n() {
            if self.live(n) {
                self.node_mut(n).quiesce().await?;
            }
        }
        for (n, v, reference) in held {
            if !self.live(n) {
                continue;
            }
            let all: Vec<(bool, ChangeV1)> = std::mem::take(&mut self.node_mut(n).outbox);
            let (mine, rest): (Vec<_>, Vec<_>) = all.into_iter().partition(|(_, c)| c.actor_id == self.actors[n] && c.versions().start().0 == v);
            self.node_mut(n).outbox = rest;
            let live_now = {
                let conn = self.read_conn(n).await?;
                read_version_changes(&conn, self.actors[n], v)?
            };
            self.logln(format!("release announcement n{n} v{v}: chunks={} live={}/{}", mine.len(), live_now.len(), reference.len()));
            if live_now.len() < reference.len() {
                self.stats.fault("announcement-after-later-transactions-overwrote-rows");
            }
            if live_now.is_empty() {
                self.stats.probe("announce.delayed.all-rows-overwritten");
            }
            tri!(super::oracle::check_announcement_of(self, n, v, &reference, &live_now, &mine));
            for (_, c) in mine {
                let k = self.add_msg(None, n, "b", c);
                self.logln(format!("  -> {k}"));
            }
        }
        Ok(Ok(()))
    }

    async fn ev_write(&mut self, n: usize, stmts: &[Stmt], hold: bool) -> StepRes {
        if !self.live(n) {
            self.logln(format!("write n{n}: node down, skipped"));
            return Ok(Ok(()));
        }
        let before = {
            let conn = self.read_conn(n).await?;
            dump_tables(&conn, TABLES_T1)?
        };
        let api_stmts = stmts
            .iter()
            .map(|s| stmt(&s.sql, s.params.iter().map(|p| p.to_param()).collect()))
            .collect();
        if hold {
            klukai_types::verif::gate_arm("bcast");
        }
        let (status, resp) = self.node_mut(n).write(api_stmts, None).await?;
        if hold {
            // later announcements pass, the parked one stays parked
            klukai_types::verif::gate_disarm("bcast");
        }
        let outbox: Vec<(bool, ChangeV1)> = std::mem::take(&mut self.node_mut(n).outbox);
        let head_now = self
            .node(n)
            .agent
            .booked()
            .read::<&str, _>("sim(head)", None)
            .await
            .last()
            .map(|v| v.0)
            .unwrap_or(0);
        self.logln(format!(
            "write n{n}: status={status} version={:?} chunks={} stmts={}",
            resp.version,
            outbox.len(),
            stmts.len()
        ));
        if status == 200 {
            match resp.version {
                Some(v) => {
                    if v != self.own_head[n] + 1 {
                        return vio(
                            "C07",
                            "version-not-consecutive",
                            json!({"node": n, "got": v, "previous": self.own_head[n]}),
                        );
                    }
                    if head_now != v {
                        return vio(
                            "C07",
                            "own-head-mismatch",
                            json!({"node": n, "acked": v, "head": head_now}),
                        );
                    }
                    let reference = {
                        let conn = self.read_conn(n).await?;
                        read_version_changes(&conn, self.actors[n], v)?
                    };
                    let last_seq = reference.last().map(|c| c.seq.0);
                    let held_now = hold && outbox.is_empty() && klukai_types::verif::gate_parked("bcast") > 0;
                    if held_now {
                        self.stats.fault("announcement-held-back");
                        self.held.push((n, v, reference.clone()));
                    } else {
                        tri!(super::oracle::check_announcement(
                            self, n, v, &reference, &outbox
                        ));
                    }
                    // executable reference: the same statements on the shadow
                    if let Err(e) = self.shadows[n].local_tx(stmts)? {
                        return vio(
                            "C07",
                            "acked-but-reference-rejects",
                            json!({"node": n, "version": v, "reference_error": e}),
                        );
                    }
                    self.own_head[n] = v;
                    let ts = match outbox.first().and_then(|(_, c)| c.ts()) {
                        Some(ts) => ts,
                        None => {
                            // (held back: the timestamp the announcement will carry is stored with the rows)
                            let conn = self.read_conn(n).await?;
                            conn.query_row(
                                "SELECT MAX(ts) FROM crsql_changes WHERE site_id = ? AND db_version = ?",
                                rusqlite::params![self.actors[n], v],
                                |r| r.get::<_, klukai_types::broadcast::Timestamp>(0),
                            )
                            .unwrap_or(klukai_types::broadcast::Timestamp::from(1u64))
                        }
                    };
                    self.origin_log[n].insert(v, (reference.clone(), last_seq.unwrap_or(0), ts));
                    self.reference.merge(&reference)?;
                    for (_, c) in outbox {
                        let k = self.add_msg(None, n, "b", c);
                        self.logln(format!("  -> {k}"));
                    }
                    self.stats.probe("write.acked");
                    if reference.len() > 40 {
                        self.stats.probe("write.large");
                    }
                }
                None => {
                    if !outbox.is_empty() {
                        return vio(
                            "C07",
                            "noop-announced",
                            json!({"node": n, "chunks": outbox.len()}),
                        );
                    }
                    if head_now != self.own_head[n] {
                        return vio(
                            "C07",
                            "noop-consumed-version",
                            json!({"node": n, "head": head_now, "previous": self.own_head[n]}),
                        );
                    }
                    if let Err(e) = self.shadows[n].local_tx(stmts)? {
                        return vio(
                            "C07",
                            "acked-but-reference-rejects",
                            json!({"node": n, "reference_error": e}),
                        );
                    }
                    self.stats.probe("write.noop");
                }
            }
        } else {
            self.stats.probe("write.rejected");
            if !outbox.is_empty() {
                return vio(
                    "C07",
                    "rejected-but-announced",
                    json!({"node": n, "chunks": outbox.len()}),
                );
            }
            if head_now != self.own_head[n] {
                return vio(
                    "C07",
                    "rejected-consumed-version",
                    json!({"node": n, "head": head_now, "previous": self.own_head[n]}),
                );
            }
            let after = {
                let conn = self.read_conn(n).await?;
                dump_tables(&conn, TABLES_T1)?
            };
            if after != before {
                return vio(
                    "C07",
                    "rejected-but-changed",
                    json!({"node": n, "diff": crate::model::first_diff(&before, &after)}),
                );
            }
        }
        super::oracle::check_node(self, n).await
    }

    pub async fn read_conn(
        &self,
        n: usize,
    ) -> R<klukai_types::sqlite_pool::Connection<klukai_types::sqlite::CrConn>> {
        self.node(n)
            .agent
            .pool()
            .read()
            .await
            .map_err(|e| SimError::Harness(format!("read pool: {e}")))
    }

    // -----------------------------------------------------------------------
    // Deliver

    async fn ev_deliver(&mut self, n: usize, keys: Vec<MsgKey>) -> StepRes {
        if !self.live(n) {
            return Ok(Ok(()));
        }
        let mut batch = vec![];
        let mut used = vec![];
        for k in &keys {
            let Some(m) = self.pool.get(k) else { continue };
            if m.key.dest.is_some_and(|d| d != n) {
                continue;
            }
            let src = if k.class == "s" {
                ChangeSource::Sync
            } else {
                ChangeSource::Broadcast
            };
            batch.push((m.change.clone(), src));
            used.push(k.clone());
        }
        if batch.is_empty() {
            return Ok(Ok(()));
        }
        let dup = used.iter().filter(|k| self.delivered[n].contains(*k)).count();
        self.stats.faults.entry("redelivery".into()).or_default();
        if dup > 0 {
            *self.stats.faults.get_mut("redelivery").unwrap() += dup as u64;
        }
        self.logln(format!(
            "deliver n{n}: [{}]",
            used.iter().map(|k| k.to_string()).collect::<Vec<_>>().join(", ")
        ));
        let _ = klukai_types::verif::applied_take();
        let res = self.node_mut(n).deliver(batch.clone()).await?;
        // what the node really merged into its tables in this step (guarded hook log)
        let applied_now: BTreeSet<(usize, u64)> = klukai_types::verif::applied_take()
            .into_iter()
            .filter_map(|(actor, v)| self.actor_idx.get(&ActorId::from_bytes(actor)).map(|a| (*a, v)))
            .collect();
        match res {
            Ok(()) => {
                let mut newly_covered = vec![];
                let mut merges: Vec<(usize, Vec<Change>, Option<u64>)> = vec![];
                let mut batch_seen: BatchSeen = BTreeMap::new();
                let pre_heads: BTreeMap<usize, u64> = self.model[n]
                    .actors
                    .iter()
                    .map(|(a, am)| (*a, am.head()))
                    .collect();
                // the node's "already known?" test looks at its pre-batch memory
                let pre_ranges: BTreeMap<(usize, u64), rangemap::RangeInclusiveSet<u64>> = self.model[n]
                    .actors
                    .iter()
                    .flat_map(|(a, am)| {
                        am.versions
                            .iter()
                            .filter(|(_, vm)| vm.state == VState::Partial)
                            .map(move |(v, vm)| ((*a, *v), vm.ranges.clone()))
                    })
                    .collect();
                // pre-batch knowledge (the node's "already known?" tests use its pre-batch memory)
                let pre_known: BTreeMap<(usize, u64), bool> = self.model[n]
                    .actors
                    .iter()
                    .flat_map(|(a, am)| {
                        am.versions.iter().map(move |(v, vm)| {
                            ((*a, *v), vm.state != VState::Partial || vm.covered_all())
                        })
                    })
                    .collect();
                // the node's partial records after the step (to resolve legal ambiguities)
                let mut after_partials: BTreeSet<(usize, u64)> = BTreeSet::new();
                {
                    let bk = self.node(n).bookie.read::<&str, _>("sim(observe)", None).await;
                    for (actor, booked) in bk.iter() {
                        let Some(&ai) = self.actor_idx.get(actor) else { continue };
                        let br = booked.read::<&str, _>("sim(observe)", None).await;
                        for v in br.partials.keys() {
                            after_partials.insert((ai, v.0));
                        }
                    }
                }
                // the node first drops changesets with identical (actor, versions, seqs)
                let mut exact: BTreeSet<(ActorId, u64, u64, Option<(u64, u64)>)> = BTreeSet::new();
                for (c, _) in &batch {
                    let vr = c.versions();
                    if !exact.insert((
                        c.actor_id,
                        vr.start().0,
                        vr.end().0,
                        c.seqs().map(|r| (r.start().0, r.end().0)),
                    )) {
                        self.stats.probe("model.exact-dup-in-batch");
                        continue;
                    }
                    if let Some(t) = self.model_deliver(
                        n,
                        c,
                        &mut merges,
                        &mut batch_seen,
                        &pre_heads,
                        &pre_ranges,
                        &after_partials,
                        &applied_now,
                        &pre_known,
                    )? {
                        newly_covered.push(t);
                    }
                }
                // the node processes a batch grouped by actor (ascending actor id),
                // within an actor in batch order: mirror that order in the reference
                merges.sort_by_key(|(a, _, _)| *a);
                for (a, ch, observe) in merges {
                    let _ = (a, observe);
                    self.shadows[n].merge(&ch)?;
                }
                for k in used {
                    self.delivered[n].insert(k);
                }
                tri!(super::oracle::check_triggers(self, n, &newly_covered));
            }
            Err(e) => {
                // no fault was injected into this step: the batch must not fail
                return vio(
                    "C03",
                    "deliver-failed",
                    json!({"node": n, "error": e, "keys": keys.iter().map(|k| k.to_string()).collect::<Vec<_>>()}),
                );
            }
        }
        super::oracle::check_node(self, n).await
    }

    /// Update the holdings model (and the shadow) for one delivered changeset.
    /// Returns Some((actor, version)) if the version became covered by this chunk.
    fn model_deliver(
        &mut self,
        n: usize,
        c: &ChangeV1,
        merges: &mut Vec<(usize, Vec<Change>, Option<u64>)>,
        batch_seen: &mut BatchSeen,
        pre_heads: &BTreeMap<usize, u64>,
        pre_ranges: &BTreeMap<(usize, u64), rangemap::RangeInclusiveSet<u64>>,
        after_partials: &BTreeSet<(usize, u64)>,
        applied_now: &BTreeSet<(usize, u64)>,
        pre_known: &BTreeMap<(usize, u64), bool>,
    ) -> R<Option<(usize, u64)>> {
        let Some(&a) = self.actor_idx.get(&c.actor_id) else {
            return Ok(None);
        };
        if a == n {
            return Ok(None);
        }
        let am: &mut ActorModel = self.model[n].actors.entry(a).or_default();
        match &c.changeset {
            Changeset::Empty { versions, .. } => {
                // known = held, or completely buffered (waiting for its apply)
                let all_known = (versions.start().0..=versions.end().0)
                    .all(|v| pre_known.get(&(a, v)).copied().unwrap_or(false));
                if all_known {
                    return Ok(None);
                }
                if (versions.start().0..=versions.end().0).all(|v| batch_seen.contains_key(&(a, v))) {
                    self.stats.probe("model.in-batch-dedupe");
                    return Ok(None);
                }
                if versions.end().0 > pre_heads.get(&a).copied().unwrap_or(0) {
                    // the node records the new head in cr-sqlite; so does the reference
                    let _: String = self.shadows[n].conn.query_row(
                        "SELECT crsql_set_db_version(?, ?)",
                        rusqlite::params![c.actor_id, versions.end().0],
                        |r| r.get(0),
                    )?;
                }
                for v in versions.start().0..=versions.end().0 {
                    batch_seen.insert((a, v), None);
                    match am.versions.get(&v).map(|vm| vm.state.clone()) {
                        None => {
                            am.set_known(v, VState::Cleared);
                            self.stats.probe("model.cleared-by-empty");
                        }
                        Some(VState::Partial) => {
                            // a holder declared it empty: buffered chunks are obsolete
                            am.set_known(v, VState::Cleared);
                            self.stats.probe("model.empty-over-partial");
                        }
                        _ => {}
                    }
                }
                Ok(None)
            }
            Changeset::EmptySet { .. } => Ok(None),
            Changeset::Full {
                version,
                changes,
                seqs,
                last_seq,
                ..
            } => {
                let v = version.0;
                let complete = seqs.start().0 == 0 && seqs.end().0 == last_seq.0;
                let known = am.versions.get(&v).map(|m| m.state.clone());
                if matches!(known, Some(VState::Applied) | Some(VState::Cleared)) {
                    self.stats.probe("model.dup-known");
                    return Ok(None);
                }
                if let Some(pre) = pre_ranges.get(&(a, v)) {
                    // everything in this chunk was buffered before this batch: a duplicate,
                    // even when the chunk is the complete version
                    if (seqs.start().0..=seqs.end().0).all(|s| pre.contains(&s)) {
                        self.stats.probe("model.dup-chunk");
                        return Ok(None);
                    }
                }
                if let Some(vm) = am.versions.get(&v) {
                    if complete
                        && vm.state == VState::Partial
                        && batch_seen.contains_key(&(a, v))
                        && (seqs.start().0..=seqs.end().0).all(|s| vm.ranges.contains(&s))
                    {
                        // completely buffered earlier in this very batch: the node's in-batch
                        // dedupe may or may not catch the complete changeset; both are fine, follow
                        // what the node did (its partial record is gone iff it applied)
                        // (the partial record can also be gone because an Empty later in the same
                        // batch superseded the version: go by what the node really merged)
                        if after_partials.contains(&(a, v)) || !applied_now.contains(&(a, v)) {
                            self.stats.probe("model.complete-over-covered.kept-buffered");
                            return Ok(None);
                        }
                        self.stats.probe("model.complete-over-covered.applied-now");
                        batch_seen.insert((a, v), None);
                        am.set_known(v, VState::Applied);
                        merges.push((a, changes.clone(), None));
                        if changes.is_empty() {
                            // a complete changeset without a single live change (its rows were all
                            // overwritten before it was announced): the node records the version like
                            // an empty one, which persists the author's version counter
                            let _: String = self.shadows[n].conn.query_row(
                                "SELECT crsql_set_db_version(?, ?)",
                                rusqlite::params![c.actor_id, v],
                                |r| r.get(0),
                            )?;
                        }
                        return Ok(None);
                    }
                }
                match batch_seen.get(&(a, v)) {
                    Some(None) => {
                        self.stats.probe("model.in-batch-dedupe");
                        return Ok(None);
                    }
                    Some(Some(r)) if (seqs.start().0..=seqs.end().0).all(|q| r.contains(&q)) => {
                        self.stats.probe("model.in-batch-dedupe");
                        return Ok(None);
                    }
                    _ => {}
                }
                if complete {
                    batch_seen.insert((a, v), None);
                    if known == Some(VState::Partial) {
                        self.stats.probe("model.complete-over-partial");
                    }
                    am.set_known(v, VState::Applied);
                    merges.push((a, changes.clone(), None));
                        if changes.is_empty() {
                            // a complete changeset without a single live change (its rows were all
                            // overwritten before it was announced): the node records the version like
                            // an empty one, which persists the author's version counter
                            let _: String = self.shadows[n].conn.query_row(
                                "SELECT crsql_set_db_version(?, ?)",
                                rusqlite::params![c.actor_id, v],
                                |r| r.get(0),
                            )?;
                        }
                    self.stats.probe("model.applied-complete");
                    return Ok(None);
                }
                let vm = am.versions.entry(v).or_insert_with(|| VerModel {
                    state: VState::Partial,
                    ranges: Default::default(),
                    last_seq: last_seq.0,
                    last_seqs: Default::default(),
                    changes: BTreeMap::new(),
                    last_seq_conflict: false,
                    stale_rows: false,
                    reverted: false,
                });
                if vm.last_seq != last_seq.0 {
                    vm.last_seq_conflict = true;
                    self.stats.probe("model.last-seq-conflict");
                }
                let was_covered_all = vm.covered_all();
                vm.last_seqs.insert(last_seq.0);
                vm.ranges.insert(seqs.start().0..=seqs.end().0);
                for ch in changes {
                    // first one wins, except that a column change replaces a row marker
                    // relayed with the same seq (mirrors the buffer table's conflict rule)
                    match vm.changes.get(&ch.seq.0) {
                        None => {
                            vm.changes.insert(ch.seq.0, ch.clone());
                        }
                        Some(old) if old.cid.is_crsql_sentinel() && !ch.cid.is_crsql_sentinel() => {
                            self.stats.probe("model.marker-and-column-change-share-a-seq");
                            vm.changes.insert(ch.seq.0, ch.clone());
                        }
                        Some(_) => {}
                    }
                }
                self.stats.probe("model.buffered-chunk");
                {
                    // what the node remembers for the rest of the batch: the merged range
                    let merged = vm
                        .ranges
                        .get(&seqs.start().0)
                        .cloned()
                        .unwrap_or(seqs.start().0..=seqs.end().0);
                    let mut set = rangemap::RangeInclusiveSet::new();
                    set.insert(merged);
                    batch_seen.insert((a, v), Some(set));
                }
                if !was_covered_all && vm.covered_all() {
                    self.stats.probe("model.covered");
                    return Ok(Some((a, v)));
                }
                Ok(None)
            }
        }
    }

    // -----------------------------------------------------------------------
    // Apply / Clear

    async fn ev_apply(&mut self, n: usize, a: usize, v: u64) -> StepRes {
        if !self.live(n) || a >= self.n() {
            return Ok(Ok(()));
        }
        let actor = self.actors[a];
        let pos = self
            .node(n)
            .apply_backlog
            .iter()
            .position(|(x, y)| *x == actor && y.0 == v);
        let Some(pos) = pos else {
            return Ok(Ok(()));
        };
        self.node_mut(n).apply_backlog.remove(pos);
        // which announced last_seq the node goes by is its choice: read its belief
        let node_covered = {
            let booked = self
                .node(n)
                .bookie
                .read::<&str, _>("sim(observe)", None)
                .await
                .get(&actor)
                .cloned();
            match booked {
                Some(b) => {
                    let br = b.read::<&str, _>("sim(observe)", None).await;
                    br.get_partial(&CrsqlDbVersion(v)).map(|p| {
                        (
                            p.seqs.gaps(&(CrsqlSeq(0)..=p.last_seq)).next().is_none(),
                            p.last_seq.0,
                        )
                    })
                }
                None => None,
            }
        };
        let res = self.node_mut(n).apply(actor, CrsqlDbVersion(v)).await?;
        self.logln(format!("apply n{n}: a{a} v{v} -> {res:?}"));
        match res {
            Err(e) => {
                return vio(
                    "C03",
                    "apply-failed",
                    json!({"node": n, "actor": a, "version": v, "error": e}),
                );
            }
            Ok(_) => {
                let am = self.model[n].actors.entry(a).or_default();
                if let Some(vm) = am.versions.get_mut(&v) {
                    let believed = match node_covered {
                        Some((c, l)) => c && (vm.last_seqs.contains(&l) || vm.last_seq == l),
                        None => false,
                    };
                    if vm.state == VState::Partial && believed && vm.covered_some() {
                        let changes: Vec<Change> = vm.changes.values().cloned().collect();
                        vm.state = VState::Applied;
                        vm.stale_rows = true;
                        vm.reverted = false;
                        self.shadows[n].merge(&changes)?;
                        self.stats.probe("model.applied-buffered");
                    }
                }
            }
        }
        super::oracle::check_node(self, n).await
    }

    async fn ev_clear(&mut self, n: usize, a: usize, v0: u64, v1: u64) -> StepRes {
        if !self.live(n) || a >= self.n() {
            return Ok(Ok(()));
        }
        let actor = self.actors[a];
        let pos = self
            .node(n)
            .clear_backlog
            .iter()
            .position(|(x, r)| *x == actor && r.start().0 == v0 && r.end().0 == v1);
        let Some(pos) = pos else {
            return Ok(Ok(()));
        };
        self.node_mut(n).clear_backlog.remove(pos);
        self.node_mut(n)
            .clear_buf(actor, CrsqlDbVersion(v0)..=CrsqlDbVersion(v1))
            .await?;
        self.logln(format!("clearbuf n{n}: a{a} v{v0}-{v1}"));
        if let Some(am) = self.model[n].actors.get_mut(&a) {
            for (_, vm) in am.versions.range_mut(v0..=v1) {
                if vm.stale_rows && vm.state != VState::Partial {
                    vm.stale_rows = false;
                    vm.ranges = Default::default();
                    vm.changes.clear();
                }
            }
        }
        super::oracle::check_node(self, n).await
    }

    // -----------------------------------------------------------------------
    // Sync (function mode)

    async fn ev_sync(&mut self, c: usize, s: usize, faults: &SyncFaults) -> StepRes {
        if c == s || !self.live(c) || !self.live(s) {
            return Ok(Ok(()));
        }
        let ours = self.node(c).sync_state().await;
        let fresh = self.node(s).sync_state().await;
        let theirs = if faults.stale {
            match self.last_state[s].clone() {
                Some(st) => {
                    self.stats.fault("stale-state");
                    st
                }
                None => fresh.clone(),
            }
        } else {
            fresh.clone()
        };
        self.last_state[s] = Some(fresh.clone());
        let needs = ours.compute_available_needs(&theirs);
        let c_ours = self.canon(&ours);
        let c_theirs = self.canon(&theirs);
        tri!(super::oracle::check_needs(
            self, c, s, &ours, &theirs, &needs
        ));
        // canonical order (HashMap order must not leak into the schedule)
        let mut flat: Vec<(usize, SyncNeedV1)> = vec![];
        for (actor, ns) in needs.iter() {
            let Some(&ai) = self.actor_idx.get(actor) else {
                continue;
            };
            for nd in ns {
                flat.push((ai, nd.clone()));
            }
        }
        if faults.scripted {
            // a requester asking for everything up to the advertised heads
            // (instead of, not in addition to, the computed needs)
            flat.clear();
            let fresh_c = self.canon(&fresh);
            for (ai, head) in fresh_c.heads.iter() {
                flat.push((
                    *ai,
                    SyncNeedV1::Full {
                        versions: CrsqlDbVersion(1)..=CrsqlDbVersion(*head),
                    },
                ));
            }
            self.stats.fault("scripted-requester");
        }
        flat.sort_by_key(|(a, nd)| (*a, need_key(nd)));
        let mut frames: Vec<SyncRequestV1> = vec![];
        // what actually goes to the server (the client's chunk_range cuts overlap by one
        // version, so boundary versions are requested - and answered - twice)
        let mut sent: Vec<(usize, SyncNeedV1)> = vec![];
        for (ai, nd) in flat.iter() {
            match nd {
                SyncNeedV1::Full { versions } if faults.split10 => {
                    let parts = klukai_agent::api::peer::verif::chunk_range(versions.clone(), 10);
                    tri!(super::oracle::check_chunk_range(self, versions, &parts));
                    for r in parts {
                        sent.push((*ai, SyncNeedV1::Full { versions: r.clone() }));
                        frames.push(vec![(self.actors[*ai], vec![SyncNeedV1::Full { versions: r }])]);
                    }
                }
                _ => {
                    sent.push((*ai, nd.clone()));
                    frames.push(vec![(self.actors[*ai], vec![nd.clone()])])
                }
            }
        }
        let flat = sent;
        let n_needs = flat.len();
        let mut mid_pre: Option<super::oracle::ServerView> = None;
        let (msgs, err) = match &faults.mid {
            None => self.node(s).serve(frames).await?,
            Some(mid) => {
                let pre = super::oracle::server_view(self, s).await?;
                let mut sess = self.node(s).serve_start(frames).await?;
                let mut k = 0usize;
                let mut res: StepRes = Ok(Ok(()));
                while sess.wait().await? {
                    if k == mid.at {
                        self.stats.fault("activity-while-serving-sync");
                        self.logln(format!("  mid-session activity on n{s}: {}", mid.what));
                        let ev = match mid.what.as_str() {
                            "deliver" => Event::DeliverAll { node: s, batch: 1000 },
                            "apply" => Event::ApplyAll { node: s },
                            _ => Event::ClearAll { node: s },
                        };
                        res = Box::pin(self.exec_inner(&ev)).await;
                        mid_pre = Some(pre.clone());
                        k += 1;
                        break;
                    }
                    k += 1;
                    sess.step();
                }
                let out = sess.finish().await?;
                match res {
                    Ok(Ok(())) => {}
                    other => return other,
                }
                if mid_pre.is_none() {
                    self.stats.probe("sync.mid-point-not-reached");
                }
                out
            }
        };
        let mut answers = changeset_msgs(msgs);
        answers.sort_by_key(|cv| {
            let a = *self.actor_idx.get(&cv.actor_id).unwrap_or(&999);
            let v = cv.versions();
            let s = cv.seqs().map(|r| (r.start().0, r.end().0));
            (a, v.start().0, v.end().0, s.is_none(), s)
        });
        self.logln(format!(
            "sync n{c}<-n{s}: ours={} theirs={} needs={} answers={} err={:?}",
            serde_json::to_string(&c_ours).unwrap(),
            serde_json::to_string(&c_theirs).unwrap(),
            n_needs,
            answers.len(),
            err.is_some()
        ));
        if let Some(e) = err {
            return vio("C05", "serve-failed", json!({"server": s, "error": e}));
        }
        match mid_pre {
            // the server's state changed while it was answering: every answer must be right for
            // the state before or the state after the concurrent activity
            Some(pre) => tri!(super::oracle::check_answers_mid(self, s, &pre, &flat, &answers).await),
            None => tri!(super::oracle::check_answers(self, s, &fresh, &flat, &answers).await),
        }
        // session faults
        let total = answers.len();
        let mut kept = vec![];
        for (i, a) in answers.into_iter().enumerate() {
            if let Some(k) = faults.cut_after {
                if i >= k {
                    self.stats.fault("session-cut");
                    continue;
                }
            }
            if faults.drop.contains(&i) {
                self.stats.fault("answer-dropped");
                continue;
            }
            kept.push(a);
        }
        if total > 0 {
            self.stats.probe("sync.with-answers");
        }
        for a in kept {
            let (ls, nch) = (a.last_seq().map(|x| x.0), a.changes().len());
            let k = self.add_msg(Some(c), s, "s", a);
            self.logln(format!("  -> {k} last_seq={ls:?} changes={nch}"));
        }
        Ok(Ok(()))
    }

    // -----------------------------------------------------------------------
    // Sync over the wire: the production client loop against the production server

    async fn ev_wire_sync(&mut self, c: usize, servers: &[usize]) -> StepRes {
        let mut servers: Vec<usize> = servers.iter().copied().filter(|s| *s != c && *s < self.n() && self.live(*s)).collect();
        servers.sort();
        servers.dedup();
        if !self.live(c) || servers.is_empty() {
            return Ok(Ok(()));
        }
        let ours = self.node(c).sync_state().await;
        let mut fresh: BTreeMap<usize, SyncStateV1> = BTreeMap::new();
        for s in servers.iter() {
            let st = self.node(*s).sync_state().await;
            self.last_state[*s] = Some(st.clone());
            fresh.insert(*s, st);
        }
        let members: Vec<(ActorId, std::net::SocketAddr)> =
            servers.iter().map(|s| (self.actors[*s], self.node(*s).agent.gossip_addr())).collect();
        let _ = klukai_types::verif::sync_needs_take();
        let _ = klukai_types::verif::sync_reqs_take();
        let mut attempt = 0;
        // a session counts only if every handshake went through (the client's 2 s handshake
        // time-outs are real time); nothing changes state before that, so it is simply repeated
        let (needs_log, reqs_log, mut answers) = loop {
            let (res, answers) = self.node_mut(c).wire_sync(members.clone(), ours.clone()).await?;
            let needs_log = klukai_types::verif::sync_needs_take();
            let reqs_log = klukai_types::verif::sync_reqs_take();
            if res.is_ok() && needs_log.len() == servers.len() {
                break (needs_log, reqs_log, answers);
            }
            attempt += 1;
            self.stats.probe("wire.session-repeated");
            if attempt >= 3 {
                return Err(SimError::Harness(format!(
                    "wire sync session failed three times: {:?}, {} of {} handshakes",
                    res.err(),
                    needs_log.len(),
                    servers.len()
                )));
            }
        };
        self.stats.fault(if servers.len() > 1 { "wire-session-several-servers" } else { "wire-session" });
        // (1) what the client computed for each server, against the two states
        type FullSet = BTreeMap<usize, RangeInclusiveSet<u64>>;
        type PartSet = BTreeMap<(usize, u64), RangeInclusiveSet<u64>>;
        fn add_need(a: usize, nd: &SyncNeedV1, full: &mut FullSet, part: &mut PartSet) {
            match nd {
                SyncNeedV1::Full { versions } => {
                    full.entry(a).or_default().insert(versions.start().0..=versions.end().0);
                }
                SyncNeedV1::Partial { version, seqs } => {
                    let e = part.entry((a, version.0)).or_default();
                    for r in seqs {
                        e.insert(r.start().0..=r.end().0);
                    }
                }
                SyncNeedV1::Empty { .. } => {}
            }
        }
        let mut computed: BTreeMap<usize, (FullSet, PartSet)> = BTreeMap::new();
        let mut all_full = FullSet::new();
        let mut all_part = PartSet::new();
        for (_, server, needs) in needs_log.iter() {
            let Some(&s) = self.actor_idx.get(&ActorId::from_bytes(*server)) else {
                continue;
            };
            let map: HashMap<ActorId, Vec<SyncNeedV1>> = needs.iter().cloned().collect();
            tri!(super::oracle::check_needs(self, c, s, &ours, &fresh[&s], &map));
            let e = computed.entry(s).or_default();
            for (actor, ns) in needs.iter() {
                let a = *self.actor_idx.get(actor).unwrap_or(&999);
                for nd in ns {
                    add_need(a, nd, &mut e.0, &mut e.1);
                    add_need(a, nd, &mut all_full, &mut all_part);
                }
            }
        }
        // (2) what was put on the wire, as the servers read it
        let mut sent_full = FullSet::new();
        let mut sent_part = PartSet::new();
        let mut flat: BTreeMap<usize, Vec<(usize, SyncNeedV1)>> = BTreeMap::new();
        let mut n_frames = 0usize;
        for (server, _, frame) in reqs_log.iter() {
            let Some(&s) = self.actor_idx.get(&ActorId::from_bytes(*server)) else {
                continue;
            };
            n_frames += 1;
            let empty = (FullSet::new(), PartSet::new());
            let (cf, cp) = computed.get(&s).unwrap_or(&empty);
            for (actor, ns) in frame.iter() {
                let a = *self.actor_idx.get(actor).unwrap_or(&999);
                if a == c {
                    return vio("C04", "wire-request-for-own-actor", json!({"client": c, "server": s}));
                }
                for nd in ns {
                    let within = match nd {
                        SyncNeedV1::Full { versions } => {
                            versions.start() <= versions.end()
                                && cf.get(&a).is_some_and(|set| set.gaps(&(versions.start().0..=versions.end().0)).next().is_none())
                        }
                        SyncNeedV1::Partial { version, seqs } => seqs.iter().all(|r| {
                            r.start() <= r.end()
                                && cp.get(&(a, version.0)).is_some_and(|set| set.gaps(&(r.start().0..=r.end().0)).next().is_none())
                        }),
                        SyncNeedV1::Empty { .. } => true,
                    };
                    if !within {
                        return vio(
                            "C04",
                            "wire-request-not-among-the-needs-computed-for-that-peer",
                            json!({"client": c, "server": s, "actor": a, "need": format!("{nd:?}")}),
                        );
                    }
                    add_need(a, nd, &mut sent_full, &mut sent_part);
                    flat.entry(s).or_default().push((a, nd.clone()));
                }
            }
        }
        self.stats.oracle_checks += 1;
        let rl = |s: &RangeInclusiveSet<u64>| s.iter().map(|r| (*r.start(), *r.end())).collect::<Vec<_>>();
        for (a, set) in all_full.iter() {
            let sent = sent_full.get(a).cloned().unwrap_or_default();
            if rl(&sent) != rl(set) {
                return vio(
                    "C04",
                    "computed-need-not-put-on-the-wire",
                    json!({"client": c, "servers": servers, "actor": a, "computed_versions": rl(set), "requested_versions": rl(&sent)}),
                );
            }
        }
        for ((a, v), set) in all_part.iter() {
            let sent = sent_part.get(&(*a, *v)).cloned().unwrap_or_default();
            if rl(&sent) != rl(set) {
                return vio(
                    "C04",
                    "computed-need-not-put-on-the-wire",
                    json!({"client": c, "servers": servers, "actor": a, "version": v, "computed_seqs": rl(set), "requested_seqs": rl(&sent)}),
                );
            }
            self.stats.probe("wire.partial-need-requested");
        }
        if all_part.keys().map(|(_, v)| v).collect::<BTreeSet<_>>().len() < all_part.len() {
            self.stats.probe("wire.partial-needs-of-two-actors-with-one-version-number");
        }
        self.logln(format!(
            "wire sync n{c}<-{servers:?}: full={:?} partial={:?}",
            all_full.iter().map(|(a, s)| (*a, rl(s))).collect::<Vec<_>>(),
            all_part.iter().map(|(k, s)| (*k, rl(s))).collect::<Vec<_>>(),
        ));
        let _ = n_frames;
        if servers.len() > 1 {
            // which server is asked for what depends on the order in which the handshakes
            // finish; only order-independent facts are judged and the answers are not used
            return Ok(Ok(()));
        }
        // (3) one server: its answers are judged like those of a simulated session and go on
        let s = servers[0];
        let mut flat = flat.remove(&s).unwrap_or_default();
        flat.sort_by_key(|(a, nd)| (*a, need_key(nd)));
        answers.sort_by_key(|cv| {
            let a = *self.actor_idx.get(&cv.actor_id).unwrap_or(&999);
            let v = cv.versions();
            let s = cv.seqs().map(|r| (r.start().0, r.end().0));
            (a, v.start().0, v.end().0, s.is_none(), s)
        });
        tri!(super::oracle::check_answers(self, s, &fresh[&s], &flat, &answers).await);
        if !answers.is_empty() {
            self.stats.probe("wire.session-with-answers");
        }
        for a in answers {
            let (ls, nch) = (a.last_seq().map(|x| x.0), a.changes().len());
            let k = self.add_msg(Some(c), s, "s", a);
            self.logln(format!("  -> {k} last_seq={ls:?} changes={nch}"));
        }
        Ok(Ok(()))
    }

    // -----------------------------------------------------------------------
    // Crash / restart

    pub async fn boot(&mut self, n: usize) -> StepRes {
        let node = Node::boot(n, self.dirs[n].clone(), self.actors[n], self.knobs.clone()).await?;
        self.nodes[n] = Some(node);
        self.logln(format!(
            "boot n{n}: incarnation {} triggers={}",
            self.incarnation[n],
            self.node(n).apply_backlog.len()
        ));
        tri!(super::oracle::check_after_boot(self, n));
        super::oracle::check_node(self, n).await
    }

    /// What a reload from disk makes of held versions whose buffered rows were
    /// not cleared yet: if the rows do not cover the version it is listed as
    /// partial again (recorded as a known-finding candidate, see DESIGN.md).
    fn reload_model(&mut self, n: usize) -> R<()> {
        let mut hits = 0;
        let actors: Vec<usize> = self.model[n].actors.keys().copied().collect();
        for a in actors {
            // what cr-sqlite itself records as the site's version (trusted base, read
            // from the reference database, not from the node)
            let durable: u64 = {
                use rusqlite::OptionalExtension;
                self.shadows[n]
                    .conn
                    .query_row(
                        "SELECT db_version FROM crsql_db_versions WHERE site_id = ?",
                        [self.actors[a]],
                        |r| r.get(0),
                    )
                    .optional()?
                    .unwrap_or(0)
            };
            // the start-up path only reloads actors that cr-sqlite has an ordinal for
            // (some change of theirs is stored) or that have partial records
            let has_ordinal: bool = self.shadows[n].conn.query_row(
                "SELECT EXISTS (SELECT 1 FROM crsql_site_id WHERE site_id = ? AND ordinal > 0)",
                [self.actors[a]],
                |r| r.get(0),
            )?;
            let am = self.model[n].actors.get_mut(&a).unwrap();
            for vm in am.versions.values_mut() {
                if vm.stale_rows && vm.state != VState::Partial {
                    // rows not cleared yet: the start-up path loads the version as buffered
                    // again. Covered -> it is simply re-scheduled and re-applied (harmless, and
                    // chunks arriving before that can still extend it); not covered -> it is
                    // advertised as partial again (the recorded finding).
                    if !vm.covered_some() {
                        hits += 1;
                    } else {
                        self.stats.probe("model.applied-version-reloaded-as-buffered");
                    }
                    vm.state = VState::Partial;
                    vm.stale_rows = false;
                    vm.reverted = true;
                }
            }
            // versions above everything that is durably recorded are forgotten
            // ("beyond its head" after a restart is allowed by C06)
            let with_rows = am
                .versions
                .iter()
                .filter(|(_, vm)| !vm.ranges.is_empty())
                .map(|(v, _)| *v)
                .max()
                .unwrap_or(0);
            let _ = has_ordinal;
            let new_max = durable.max(with_rows);
            let forget: Vec<u64> = am.versions.range(new_max + 1..).map(|(v, _)| *v).collect();
            if !forget.is_empty() {
                self.stats.probe_n("model.head-regressed-after-restart", forget.len() as u64);
                self.regressed.insert((n, a));
                for v in forget {
                    am.versions.remove(&v);
                }
            }
        }
        if hits > 0 {
            self.stats.probe_n("model.held-reverts-to-partial-after-restart", hits);
            let sig = "C02:held-version-listed-partial-again-after-restart-before-clear".to_string();
            if !self.known_hits.contains(&sig) {
                self.known_hits.push(sig);
            }
        }
        Ok(())
    }

    async fn ev_crash(&mut self, n: usize, lose_outbox: bool) -> StepRes {
        if !self.live(n) {
            return Ok(Ok(()));
        }
        self.stats.fault("crash");
        // announcements of this incarnation that were still held back die with it
        self.held.retain(|(hn, _, _)| *hn != n);
        let old = self.nodes[n].take().unwrap();
        self.incarnation[n] += 1;
        let new_dir = self.run_dir.join(format!("n{n}-{}", self.incarnation[n]));
        snapshot_dir(&old.dir, &new_dir)?;
        // the abandoned incarnation keeps its files; release what we can
        old.trip().await;
        drop(old);
        self.dirs[n] = new_dir;
        if lose_outbox {
            let lost: Vec<MsgKey> = self
                .pool
                .keys()
                .filter(|k| k.from == n && k.class == "b")
                .filter(|k| !self.delivered.iter().any(|d| d.contains(*k)))
                .cloned()
                .collect();
            for k in lost {
                self.pool.remove(&k);
                self.stats.fault("outbox-lost");
            }
        }
        self.logln(format!("crash n{n}"));
        self.reload_model(n)?;
        self.boot(n).await
    }

    async fn ev_restart(&mut self, n: usize) -> StepRes {
        if !self.live(n) {
            return Ok(Ok(()));
        }
        self.stats.fault("graceful-restart");
        // a graceful stop waits for the detached announcement tasks
        tri!(self.ev_release_announcements().await);
        let old = self.nodes[n].take().unwrap();
        old.shutdown_graceful().await?;
        self.incarnation[n] += 1;
        self.logln(format!("restart n{n}"));
        self.reload_model(n)?;
        self.boot(n).await
    }

    // -----------------------------------------------------------------------
    // Phase 2

    async fn ev_fair_round(&mut self) -> StepRes {
        for c in 0..self.n() {
            for s in 0..self.n() {
                if c == s {
                    continue;
                }
                tri!(self.ev_sync(c, s, &SyncFaults::default()).await);
                let keys = self.visible_undelivered(c);
                for chunk in keys.chunks(64) {
                    tri!(self.ev_deliver(c, chunk.to_vec()).await);
                }
                let backlog: Vec<_> = self.node(c).apply_backlog.clone();
                for (a, v) in backlog {
                    let ai = *self.actor_idx.get(&a).unwrap_or(&999);
                    tri!(self.ev_apply(c, ai, v.0).await);
                }
            }
        }
        for n in 0..self.n() {
            let backlog: Vec<_> = self.node(n).clear_backlog.clone();
            for (a, r) in backlog {
                let ai = *self.actor_idx.get(&a).unwrap_or(&999);
                tri!(self.ev_clear(n, ai, r.start().0, r.end().0).await);
            }
        }
        let d = super::oracle::world_digest(self).await?;
        self.round_digests.push(d);
        Ok(Ok(()))
    }
}

pub fn need_key(nd: &SyncNeedV1) -> (u8, u64, u64, Vec<(u64, u64)>) {
    match nd {
        SyncNeedV1::Full { versions } => (0, versions.start().0, versions.end().0, vec![]),
        SyncNeedV1::Partial { version, seqs } => (
            1,
            version.0,
            version.0,
            seqs.iter().map(|r| (r.start().0, r.end().0)).collect(),
        ),
        SyncNeedV1::Empty { .. } => (2, 0, 0, vec![]),
    }
}
