//! Seeded scheduler + workload generator + run driver for the cluster tier.
//! The scheduler is the only consumer of randomness; it looks only at the
//! canonical observable state (pool keys, backlogs, liveness).

use std::path::{Path, PathBuf};

use serde_json::json;

use super::{
    Event, MsgKey, RunCfg, SyncFaults,
    exec::{StepRes, World, tri, vio},
    oracle,
};
use crate::{
    model::{P, Stmt},
    node::R,
    rng::Rng,
    trace::{RunOutcome, Violation, fnv},
};

pub fn draw_cfg(rng: &mut Rng, focus: &str) -> RunCfg {
    let mut cfg = RunCfg {
        nodes: rng.range(2, 4) as usize,
        keys: rng.range(2, 6),
        max_events: rng.range(20, 140) as usize,
        max_writes: rng.range(4, 30) as usize,
        w_write: rng.range(5, 30) as u32,
        w_deliver: rng.range(10, 40) as u32,
        w_apply: rng.range(2, 20) as u32,
        w_clear: rng.range(0, 8) as u32,
        w_sync: rng.range(0, 20) as u32,
        w_recut: if rng.chance(0.5) { rng.range(1, 8) as u32 } else { 0 },
        w_drop: if rng.chance(0.6) { rng.range(1, 10) as u32 } else { 0 },
        w_crash: if rng.chance(0.4) { rng.range(1, 4) as u32 } else { 0 },
        w_restart: if rng.chance(0.2) { 1 } else { 0 },
        p_large: if rng.chance(0.5) { 0.05 + rng.f64() * 0.2 } else { 0.0 },
        p_fail_stmt: if rng.chance(0.5) { rng.f64() * 0.3 } else { 0.0 },
        p_dup: rng.f64() * 0.3,
        max_rounds: 12,
        focus: focus.to_string(),
    };
    match focus {
        "C03" | "C08" => {
            cfg.p_large = 0.2 + rng.f64() * 0.4;
            cfg.w_recut = rng.range(3, 12) as u32;
            cfg.w_sync = rng.range(5, 20) as u32;
            cfg.max_writes = rng.range(3, 12) as usize;
        }
        "C06" => {
            cfg.w_crash = rng.range(3, 10) as u32;
            cfg.w_restart = rng.range(0, 3) as u32;
            cfg.p_large = 0.1 + rng.f64() * 0.3;
        }
        "C07" => {
            cfg.nodes = 2;
            cfg.w_write = 40;
            cfg.p_fail_stmt = 0.2 + rng.f64() * 0.3;
            cfg.max_writes = rng.range(10, 40) as usize;
        }
        "C04" | "C05" => {
            cfg.w_sync = rng.range(10, 30) as u32;
            cfg.w_drop = rng.range(3, 12) as u32;
            cfg.p_large = 0.1 + rng.f64() * 0.3;
        }
        _ => {}
    }
    cfg
}

pub struct Gen {
    rng_sched: Rng,
    rng_work: Rng,
    rng_fault: Rng,
    writes: usize,
    events: usize,
    counter: u64,
}

impl Gen {
    pub fn new(seed: u64) -> Gen {
        let base = Rng::new(seed);
        Gen {
            rng_sched: base.fork("sched"),
            rng_work: base.fork("work"),
            rng_fault: base.fork("fault"),
            writes: 0,
            events: 0,
            counter: 0,
        }
    }

    fn tag(&mut self, node: usize) -> String {
        self.counter += 1;
        format!("~n{node}w{}~", self.counter)
    }

    pub fn gen_write(&mut self, cfg: &RunCfg, node: usize) -> Vec<Stmt> {
        let keys = cfg.keys as i64;
        if self.rng_work.chance(cfg.p_large) {
            // one large transaction: many rows x long text => several chunks
            let rows = self.rng_work.range(20, 120) as i64;
            let base = 100 + (self.rng_work.below(3) as i64) * 40;
            let t = self.tag(node);
            let width = *self.rng_work.pick(&[40i64, 150, 300, 600]);
            let mut v = vec![Stmt {
                sql: format!("INSERT INTO t3 (id, c1, n1) SELECT value, ? || printf('%0{width}d', value), value FROM generate_series(?, ?) WHERE true ON CONFLICT (id) DO UPDATE SET c1 = excluded.c1, n1 = excluded.n1"),
                params: vec![P::T(t), P::I(base), P::I(base + rows - 1)],
            }];
            if self.rng_work.chance(0.3) {
                let t = self.tag(node);
                v.push(Stmt {
                    sql: "UPDATE t3 SET c2 = ? WHERE id >= ? AND id <= ?".into(),
                    params: vec![P::T(t), P::I(base), P::I(base + rows / 2)],
                });
            }
            if self.rng_work.chance(0.2) {
                v.push(Stmt {
                    sql: "DELETE FROM t3 WHERE id >= ? AND id <= ?".into(),
                    params: vec![P::I(base + rows / 3), P::I(base + rows / 2)],
                });
            }
            return v;
        }
        let n = 1 + self.rng_work.weighted(&[50, 25, 12, 6, 4, 3]);
        let fail_at = if self.rng_work.chance(cfg.p_fail_stmt) {
            Some(self.rng_work.usize_below(n))
        } else {
            None
        };
        let mut out = vec![];
        for i in 0..n {
            if fail_at == Some(i) {
                let k = self.rng_work.below(5);
                out.push(match k {
                    0 => Stmt {
                        sql: "INSERT INTO t1 (id, a) VALUES (?, NULL)".into(),
                        params: vec![P::I(1 + self.rng_work.below(cfg.keys) as i64)],
                    },
                    1 => Stmt {
                        sql: "INSRT INTO t1 VALUES (1)".into(),
                        params: vec![],
                    },
                    2 => Stmt {
                        sql: "UPDATE t1 SET a = ? WHERE id = ?".into(),
                        params: vec![P::T("x".into())],
                    },
                    3 => Stmt {
                        sql: "INSERT INTO nosuchtable (id) VALUES (?)".into(),
                        params: vec![P::I(1)],
                    },
                    _ => Stmt {
                        // plain INSERT of a possibly existing key: fails only if present
                        sql: "INSERT INTO t1 (id, a) VALUES (?, ?)".into(),
                        params: vec![
                            P::I(1 + self.rng_work.below(cfg.keys) as i64),
                            P::T(self.tag(node)),
                        ],
                    },
                });
                continue;
            }
            let table = self.rng_work.weighted(&[45, 25, 30]);
            let op = self.rng_work.weighted(&[40, 25, 15, 8, 6, 6]);
            let id = 1 + self.rng_work.below(cfg.keys) as i64;
            let t = self.tag(node);
            let st = match (table, op) {
                (0, 0) => Stmt {
                    sql: "INSERT INTO t1 (id, a, b) VALUES (?, ?, ?) ON CONFLICT (id) DO UPDATE SET a = excluded.a, b = excluded.b".into(),
                    params: vec![P::I(id), P::T(t.clone()), if self.rng_work.chance(0.3) { P::N } else { P::T(format!("{t}b")) }],
                },
                (0, 1) => Stmt {
                    sql: "UPDATE t1 SET a = ? WHERE id = ?".into(),
                    params: vec![P::T(t), P::I(id)],
                },
                (0, 2) => Stmt {
                    sql: "DELETE FROM t1 WHERE id = ?".into(),
                    params: vec![P::I(id)],
                },
                (0, 3) => Stmt {
                    sql: "UPDATE t1 SET b = ? WHERE id = ?".into(),
                    params: vec![P::T(t), P::I(id + 1000)], // matches nothing: no-op
                },
                (0, 4) => Stmt {
                    sql: "INSERT OR IGNORE INTO t1 (id, a) VALUES (?, ?)".into(),
                    params: vec![P::I(id), P::T(t)],
                },
                (0, _) => Stmt {
                    sql: "INSERT OR REPLACE INTO t1 (id, a, b) VALUES (?, ?, ?)".into(),
                    params: vec![P::I(id), P::T(t.clone()), P::T(format!("{t}r"))],
                },
                (1, 0) | (1, 4) | (1, 5) => Stmt {
                    sql: "INSERT INTO t2 (k1, k2, v, w) VALUES (?, ?, ?, ?) ON CONFLICT (k1, k2) DO UPDATE SET v = excluded.v, w = excluded.w".into(),
                    params: vec![P::B(vec![id as u8, 0xfe]), P::T(format!("k{}", id % 2)), P::T(t), P::I(self.counter as i64)],
                },
                (1, 1) | (1, 3) => Stmt {
                    sql: "UPDATE t2 SET v = ? WHERE k1 = ?".into(),
                    params: vec![P::T(t), P::B(vec![id as u8, 0xfe])],
                },
                (1, _) => Stmt {
                    sql: "DELETE FROM t2 WHERE k1 = ? AND k2 = ?".into(),
                    params: vec![P::B(vec![id as u8, 0xfe]), P::T(format!("k{}", id % 2))],
                },
                (_, 0) | (_, 4) => Stmt {
                    sql: "INSERT INTO t3 (id, c1, c2, n1, n2) VALUES (?, ?, ?, ?, ?) ON CONFLICT (id) DO UPDATE SET c1 = excluded.c1, c2 = excluded.c2, n1 = excluded.n1, n2 = excluded.n2".into(),
                    params: vec![P::I(id), P::T(t.clone()), P::T(format!("{t}2")), P::I(self.counter as i64), P::N],
                },
                (_, 1) | (_, 5) => {
                    let cols = ["c1", "c2"];
                    let c = cols[self.rng_work.usize_below(2)];
                    Stmt {
                        sql: format!("UPDATE t3 SET {c} = ?, n1 = ? WHERE id = ?"),
                        params: vec![P::T(t), P::I(self.counter as i64), P::I(id)],
                    }
                }
                (_, 2) => Stmt {
                    sql: "DELETE FROM t3 WHERE id = ?".into(),
                    params: vec![P::I(id)],
                },
                (_, _) => Stmt {
                    sql: "UPDATE t3 SET n2 = ? WHERE id <= ?".into(),
                    params: vec![P::I(self.counter as i64), P::I(id)],
                },
            };
            out.push(st);
        }
        out
    }

    /// Next event of the fault phase, or None when the phase is over.
    pub fn next(&mut self, w: &World) -> Option<Event> {
        let cfg = &w.cfg;
        if self.events >= cfg.max_events {
            return None;
        }
        self.events += 1;
        let live: Vec<usize> = (0..w.n()).filter(|i| w.live(*i)).collect();
        let with_apply: Vec<usize> = live
            .iter()
            .copied()
            .filter(|i| !w.node(*i).apply_backlog.is_empty())
            .collect();
        let with_clear: Vec<usize> = live
            .iter()
            .copied()
            .filter(|i| !w.node(*i).clear_backlog.is_empty())
            .collect();
        let pool_keys: Vec<&MsgKey> = w.pool.keys().collect();
        let recut_candidates: Vec<(usize, u64, u64)> = w
            .origin_log
            .iter()
            .enumerate()
            .flat_map(|(o, l)| {
                l.iter()
                    .filter(|(_, (_, ls, _))| *ls >= 1)
                    .map(move |(v, (_, ls, _))| (o, *v, *ls))
            })
            .collect();
        let weights = [
            if self.writes < cfg.max_writes && !live.is_empty() { cfg.w_write } else { 0 },
            if !pool_keys.is_empty() && !live.is_empty() { cfg.w_deliver } else { 0 },
            if !with_apply.is_empty() { cfg.w_apply } else { 0 },
            if !with_clear.is_empty() { cfg.w_clear } else { 0 },
            if live.len() >= 2 { cfg.w_sync } else { 0 },
            if !recut_candidates.is_empty() { cfg.w_recut } else { 0 },
            if !pool_keys.is_empty() { cfg.w_drop } else { 0 },
            if !live.is_empty() { cfg.w_crash } else { 0 },
            if !live.is_empty() { cfg.w_restart } else { 0 },
        ];
        if weights.iter().all(|x| *x == 0) {
            return None;
        }
        let r = &mut self.rng_sched;
        if !w.held.is_empty() && self.rng_fault.chance(0.2) {
            return Some(Event::ReleaseAnnouncements);
        }
        Some(match r.weighted(&weights) {
            0 => {
                let node = *r.pick(&live);
                self.writes += 1;
                let cfg2 = cfg.clone();
                let p_hold = if cfg.focus == "C07" || cfg.focus == "C08" { 0.15 } else { 0.05 };
                let hold = self.rng_fault.chance(p_hold);
                Event::Write {
                    node,
                    stmts: self.gen_write(&cfg2, node),
                    hold,
                }
            }
            1 => {
                let node = *r.pick(&live);
                let visible: Vec<&MsgKey> = pool_keys
                    .iter()
                    .copied()
                    .filter(|k| k.dest.is_none_or(|d| d == node))
                    .collect();
                let fresh: Vec<&MsgKey> = visible
                    .iter()
                    .copied()
                    .filter(|k| !w.delivered[node].contains(*k) && k.actor != node)
                    .collect();
                let n = 1 + r.weighted(&[40, 20, 15, 10, 8, 4, 3]);
                let mut msgs = vec![];
                for _ in 0..n {
                    let from = if !fresh.is_empty() && !r.chance(cfg.p_dup) {
                        &fresh
                    } else {
                        &visible
                    };
                    if from.is_empty() {
                        break;
                    }
                    msgs.push((*r.pick(from)).clone());
                }
                if msgs.is_empty() {
                    return self.next(w);
                }
                Event::Deliver { node, msgs }
            }
            2 => {
                let node = *r.pick(&with_apply);
                let (a, v) = r.pick(&w.node(node).apply_backlog).clone();
                Event::Apply {
                    node,
                    actor: *w.actor_idx.get(&a).unwrap_or(&0),
                    version: v.0,
                }
            }
            3 => {
                let node = *r.pick(&with_clear);
                let (a, rg) = r.pick(&w.node(node).clear_backlog).clone();
                Event::ClearBuf {
                    node,
                    actor: *w.actor_idx.get(&a).unwrap_or(&0),
                    v0: rg.start().0,
                    v1: rg.end().0,
                }
            }
            4 => {
                let client = *r.pick(&live);
                let others: Vec<usize> = live.iter().copied().filter(|x| *x != client).collect();
                let server = *r.pick(&others);
                let f = &mut self.rng_fault;
                // the production client loop over the nodes' real endpoints
                let p_wire = if cfg.focus == "C04" { 0.3 } else if cfg.focus == "C05" || cfg.focus == "C08" { 0.15 } else { 0.06 };
                if f.chance(p_wire) {
                    let mut servers = vec![server];
                    if others.len() >= 2 && f.chance(0.35) {
                        for o in others.iter() {
                            if *o != server && f.chance(0.7) {
                                servers.push(*o);
                            }
                        }
                    }
                    servers.sort();
                    return Some(Event::WireSync { client, servers });
                }
                let mut faults = SyncFaults {
                    stale: f.chance(0.15),
                    split10: f.chance(0.3),
                    scripted: f.chance(0.15),
                    ..Default::default()
                };
                if f.chance(0.25) {
                    faults.cut_after = Some(f.below(6) as usize);
                }
                if f.chance(0.25) {
                    let k = 1 + f.below(3);
                    for _ in 0..k {
                        faults.drop.push(f.below(8) as usize);
                    }
                    faults.drop.sort();
                    faults.drop.dedup();
                }
                // concurrent activity on the server while it answers (only when there is some)
                let mut kinds: Vec<&str> = vec![];
                if !w.visible_undelivered(server).is_empty() {
                    kinds.push("deliver");
                    kinds.push("deliver");
                }
                if !w.node(server).apply_backlog.is_empty() {
                    kinds.push("apply");
                }
                if !w.node(server).clear_backlog.is_empty() {
                    kinds.push("clear");
                }
                if !kinds.is_empty() && f.chance(0.35) {
                    faults.mid = Some(super::Mid {
                        at: f.below(5) as usize,
                        what: f.pick(&kinds).to_string(),
                    });
                    // a requester that asks across the server's gaps makes the overlap matter
                    if f.chance(0.5) {
                        faults.scripted = true;
                    }
                }
                Event::Sync {
                    client,
                    server,
                    faults,
                }
            }
            5 => {
                let (origin, version, last) = *r.pick(&recut_candidates);
                let f = &mut self.rng_fault;
                let mut cuts = vec![];
                let style = f.below(4);
                match style {
                    0 => {
                        // contiguous tiling at random boundaries
                        let mut start = 0u64;
                        while start <= last {
                            let len = 1 + f.below((last - start + 1).min(1 + last / 2));
                            let end = (start + len - 1).min(last);
                            cuts.push((start, end));
                            start = end + 1;
                        }
                    }
                    1 => {
                        // overlapping chunks
                        for _ in 0..(2 + f.below(3)) {
                            let a = f.below(last + 1);
                            let b = a + f.below(last - a + 1);
                            cuts.push((a, b));
                        }
                    }
                    2 => {
                        // single-seq chunks somewhere
                        for _ in 0..(1 + f.below(4)) {
                            let a = f.below(last + 1);
                            cuts.push((a, a));
                        }
                    }
                    _ => {
                        // everything but seq 0, then seq 0 alone
                        if last >= 1 {
                            cuts.push((1, last));
                        }
                        cuts.push((0, 0));
                    }
                }
                let live = f.chance(0.4);
                Event::Recut {
                    origin,
                    version,
                    cuts,
                    live,
                }
            }
            6 => {
                let n = 1 + r.below(3);
                let mut msgs = vec![];
                for _ in 0..n {
                    msgs.push((*r.pick(&pool_keys)).clone());
                }
                msgs.sort();
                msgs.dedup();
                Event::Drop { msgs }
            }
            7 => Event::Crash {
                node: *r.pick(&live),
                lose_outbox: self.rng_fault.chance(0.5),
            },
            _ => Event::Restart {
                node: *r.pick(&live),
            },
        })
    }
}

#[derive(Default)]
pub struct Conv {
    pub rounds: usize,
    pub done: bool,
}

/// Execute one event plus the phase-2 bookkeeping that belongs to it.
pub async fn drive(w: &mut World, ev: &Event, conv: &mut Conv) -> StepRes {
    tri!(w.exec(ev).await);
    if matches!(ev, Event::FairRound) && !conv.done {
        conv.rounds += 1;
        let step = w.step;
        let fix = |mut v: Violation| {
            v.step = step;
            v
        };
        match oracle::check_converged(w).await? {
            Err(v) => return Ok(Err(fix(v))),
            Ok(true) => {
                conv.done = true;
                w.stats.converged = true;
                w.stats.probes.insert("converged-after-rounds".into(), conv.rounds as u64);
                // drain maintenance, then nothing buffered may be left
                for n in 0..w.n() {
                    tri!(w.exec(&Event::ClearAll { node: n }).await);
                }
                if let Err(v) = oracle::check_no_leftovers(w).await? {
                    return Ok(Err(fix(v)));
                }
            }
            Ok(false) => {
                let k = w.round_digests.len();
                if k >= 2 && w.round_digests[k - 1] == w.round_digests[k - 2] {
                    let mut states = vec![];
                    for n in 0..w.n() {
                        let st = w.node(n).sync_state().await;
                        states.push(w.canon(&st));
                    }
                    return vio(
                        "C01",
                        "no-progress-fixpoint",
                        json!({"round": conv.rounds, "states": states, "origin_heads": w.own_head}),
                    )
                    .map(|r| r.map_err(fix));
                }
                if conv.rounds >= w.cfg.max_rounds {
                    return vio(
                        "C01",
                        "no-convergence-within-budget",
                        json!({"rounds": conv.rounds}),
                    )
                    .map(|r| r.map_err(fix));
                }
            }
        }
    }
    Ok(Ok(()))
}

fn schedule_hash(events: &[Event]) -> u64 {
    let mut h = 0xcbf2_9ce4_8422_2325;
    for e in events {
        let s = match e {
            Event::Write { node, stmts, hold } => format!("W{node}:{}{}", stmts.len().min(3), if *hold { "h" } else { "" }),
            Event::ReleaseAnnouncements => "RA".into(),
            Event::Deliver { node, msgs } => format!(
                "D{node}:{}",
                msgs.iter()
                    .map(|k| format!("{}{}{}", k.class, k.actor, k.seqs.is_some()))
                    .collect::<String>()
            ),
            Event::Apply { node, actor, .. } => format!("A{node}{actor}"),
            Event::ClearBuf { node, actor, .. } => format!("C{node}{actor}"),
            Event::Sync {
                client,
                server,
                faults,
            } => format!(
                "S{client}{server}{}{}{}",
                faults.stale,
                faults.cut_after.is_some(),
                faults.drop.len()
            ),
            Event::Recut { origin, cuts, live, .. } => format!("R{origin}{}{}", cuts.len(), if *live { "l" } else { "" }),
            Event::Drop { msgs } => format!("X{}", msgs.len()),
            Event::Crash { node, lose_outbox } => format!("K{node}{lose_outbox}"),
            Event::Restart { node } => format!("G{node}"),
            other => other.kind().to_string(),
        };
        fnv(&mut h, s.as_bytes());
    }
    h
}

fn outcome(
    w: World,
    seed: u64,
    events: &[Event],
    violation: Option<Violation>,
) -> R<RunOutcome> {
    let mut stats = w.stats.clone();
    // C20 (c): lock-order facts of everything that ran in this run
    let mut violation = violation;
    {
        let trace = klukai_types::verif::lock_trace_take();
        let (rep, v) = crate::locks::analyze(&trace);
        stats.probe_n("locks.acquisitions", rep.acquisitions);
        for ((a, b), n) in rep.class_edges.iter() {
            stats.probe_n(&format!("locks.holds {a} -> requests {b}"), *n);
        }
        if violation.is_none() {
            if let Some(mut v) = v {
                v.step = w.step;
                violation = Some(v);
            }
        }
    }
    stats.schedule_hash = schedule_hash(events);
    let faults: u64 = stats.faults.values().sum();
    stats.nontrivial = faults > 0 && (stats.converged || violation.is_some());
    let mut log = w.log.clone();
    if let Some(v) = &violation {
        log.push(format!("VIOLATION {} {} step {}", v.property, v.class, v.step));
    }
    let mut h = 0xcbf2_9ce4_8422_2325;
    for l in &log {
        fnv(&mut h, l.as_bytes());
        fnv(&mut h, b"\n");
    }
    Ok(RunOutcome {
        seed,
        tier: "t1".into(),
        config: serde_json::to_value(&w.cfg)?,
        events: events
            .iter()
            .map(serde_json::to_value)
            .collect::<Result<_, _>>()?,
        violation,
        known: w.known_hits.clone(),
        stats,
        log_digest: h,
    })
}

pub fn run_dir(base: &Path, seed: u64, tag: &str) -> PathBuf {
    base.join(format!("run-{}-{seed:016x}-{tag}", std::process::id()))
}

/// Generate-and-execute one run.
pub async fn run_generated(seed: u64, focus: &str, base: &Path, keep_log: Option<&mut Vec<String>>) -> R<RunOutcome> {
    let mut rng = Rng::new(seed).fork("cfg");
    let cfg = draw_cfg(&mut rng, focus);
    let dir = run_dir(base, seed, "g");
    let mut w = World::new(seed, cfg, dir.clone()).await?;
    let mut g = Gen::new(seed);
    let mut events = vec![];
    let mut conv = Conv::default();
    let mut violation = None;
    'outer: {
        while let Some(ev) = g.next(&w) {
            events.push(ev.clone());
            if let Err(v) = drive(&mut w, &ev, &mut conv).await? {
                violation = Some(v);
                break 'outer;
            }
        }
        events.push(Event::Heal);
        if let Err(v) = drive(&mut w, &Event::Heal, &mut conv).await? {
            violation = Some(v);
            break 'outer;
        }
        while !conv.done {
            events.push(Event::FairRound);
            if let Err(v) = drive(&mut w, &Event::FairRound, &mut conv).await? {
                violation = Some(v);
                break 'outer;
            }
        }
    }
    if let Some(l) = keep_log {
        *l = w.log.clone();
    }
    let out = outcome(w, seed, &events, violation);
    let _ = std::fs::remove_dir_all(&dir);
    out
}

/// Execute a recorded event list (replay / minimisation).
pub async fn run_events(
    seed: u64,
    cfg: RunCfg,
    events: &[Event],
    base: &Path,
    tag: &str,
    keep_log: Option<&mut Vec<String>>,
) -> R<RunOutcome> {
    let dir = run_dir(base, seed, tag);
    let _ = std::fs::remove_dir_all(&dir);
    let mut w = World::new(seed, cfg, dir.clone()).await?;
    let mut conv = Conv::default();
    let mut violation = None;
    let mut done = vec![];
    for ev in events {
        done.push(ev.clone());
        if let Err(v) = drive(&mut w, ev, &mut conv).await? {
            violation = Some(v);
            break;
        }
    }
    if let Some(l) = keep_log {
        *l = w.log.clone();
    }
    let out = outcome(w, seed, &done, violation);
    if std::env::var_os("VERIF_KEEPDIR").is_some() {
        eprintln!("run directory kept: {}", dir.display());
    } else {
        let _ = std::fs::remove_dir_all(&dir);
    }
    out
}
