//! T1: cluster tier. 2-4 real nodes, step-serial; the simulator is the network,
//! the background scheduler, the maintenance timer and the crash injector.

pub mod exec;
pub mod gen_;
pub mod oracle;

use std::collections::BTreeMap;

use klukai_types::broadcast::ChangeV1;
use serde::{Deserialize, Serialize};

use crate::model::Stmt;

/// Logical message key. Broadcast chunks are visible to every node (`dest` =
/// None); answers of a sync session only to the requesting client.
#[derive(Serialize, Deserialize, Clone, Debug, PartialEq, Eq, PartialOrd, Ord, Hash)]
pub struct MsgKey {
    /// destination node (None = any node: gossip)
    pub dest: Option<usize>,
    /// node whose real code produced this message
    pub from: usize,
    /// origin actor (node index)
    pub actor: usize,
    pub v0: u64,
    pub v1: u64,
    /// seq range; None for Empty changesets
    pub seqs: Option<(u64, u64)>,
    /// producer class: "b" broadcast, "s" sync answer, "r" sim re-cut of the origin's dense version
    pub class: String,
    /// occurrence number for identical keys
    pub n: u32,
}

impl std::fmt::Display for MsgKey {
    fn fmt(&self, f: &mut std::fmt::Formatter<'_>) -> std::fmt::Result {
        let dest = self.dest.map(|d| format!("n{d}")).unwrap_or("*".into());
        write!(f, "{}:{dest}<n{} a{} v{}", self.class, self.from, self.actor, self.v0)?;
        if self.v1 != self.v0 {
            write!(f, "-{}", self.v1)?;
        }
        match self.seqs {
            Some((a, b)) => write!(f, " s{a}-{b}")?,
            None => write!(f, " empty")?,
        }
        write!(f, " #{}", self.n)
    }
}

#[derive(Clone, Debug)]
pub struct Msg {
    pub key: MsgKey,
    pub change: ChangeV1,
    pub last_seq: Option<u64>,
    pub n_changes: usize,
}

#[derive(Serialize, Deserialize, Clone, Debug, PartialEq, Default)]
pub struct SyncFaults {
    /// use the server state captured this many Sync events earlier (stale State frame)
    pub stale: bool,
    /// keep only the first k answers (session aborted)
    pub cut_after: Option<usize>,
    /// drop these answer indexes (shedding)
    pub drop: Vec<usize>,
    /// split Full needs by 10 versions the way the client does
    pub split10: bool,
    /// scripted requester: ask for everything up to the advertised heads (C05)
    pub scripted: bool,
    /// concurrent activity on the server while it answers: when the server is parked at its
    /// `at`-th decision point (after its first read), run `what` ("deliver" | "apply" | "clear")
    #[serde(default)]
    pub mid: Option<Mid>,
}

#[derive(Serialize, Deserialize, Clone, Debug, PartialEq)]
pub struct Mid {
    pub at: usize,
    pub what: String,
}

#[derive(Serialize, Deserialize, Clone, Debug, PartialEq)]
#[serde(tag = "op")]
pub enum Event {
    Write {
        node: usize,
        stmts: Vec<Stmt>,
        /// the announcement of this transaction is held back (its detached task is parked
        /// before it reads the committed rows) until `ReleaseAnnouncements`
        #[serde(default)]
        hold: bool,
    },
    /// held-back announcements run now - after whatever was committed in between
    ReleaseAnnouncements,
    Deliver { node: usize, msgs: Vec<MsgKey> },
    /// deliver every pool message visible to `node` and not yet delivered to it
    DeliverAll { node: usize, batch: usize },
    Apply { node: usize, actor: usize, version: u64 },
    ApplyAll { node: usize },
    ClearBuf { node: usize, actor: usize, v0: u64, v1: u64 },
    ClearAll { node: usize },
    Sync { client: usize, server: usize, faults: SyncFaults },
    /// one round of the production sync client (`parallel_sync`) of `client` towards `servers`
    /// over the nodes' real QUIC endpoints; the servers answer through `serve_sync`
    WireSync { client: usize, servers: Vec<usize> },
    /// sim re-cuts the dense reference copy of (origin, version) at these seq boundaries
    Recut {
        origin: usize,
        version: u64,
        cuts: Vec<(u64, u64)>,
        /// the supplier is a holder whose later versions overwrote part of this one: each chunk
        /// carries only the rows still live at the origin now (possibly none, range kept)
        #[serde(default)]
        live: bool,
    },
    Drop { msgs: Vec<MsgKey> },
    Crash { node: usize, lose_outbox: bool },
    Restart { node: usize },
    /// end of the fault phase: from here on only fair rounds
    Heal,
    FairRound,
}

impl Event {
    pub fn kind(&self) -> &'static str {
        match self {
            Event::Write { .. } => "Write",
            Event::ReleaseAnnouncements => "ReleaseAnnouncements",
            Event::Deliver { .. } => "Deliver",
            Event::DeliverAll { .. } => "DeliverAll",
            Event::Apply { .. } => "Apply",
            Event::ApplyAll { .. } => "ApplyAll",
            Event::ClearBuf { .. } => "ClearBuf",
            Event::ClearAll { .. } => "ClearAll",
            Event::Sync { .. } => "Sync",
            Event::WireSync { .. } => "WireSync",
            Event::Recut { .. } => "Recut",
            Event::Drop { .. } => "Drop",
            Event::Crash { .. } => "Crash",
            Event::Restart { .. } => "Restart",
            Event::Heal => "Heal",
            Event::FairRound => "FairRound",
        }
    }
}

/// Per-run configuration (swarm style: drawn from the seed).
#[derive(Serialize, Deserialize, Clone, Debug)]
pub struct RunCfg {
    pub nodes: usize,
    pub keys: u64,
    pub max_events: usize,
    pub max_writes: usize,
    pub w_write: u32,
    pub w_deliver: u32,
    pub w_apply: u32,
    pub w_clear: u32,
    pub w_sync: u32,
    pub w_recut: u32,
    pub w_drop: u32,
    pub w_crash: u32,
    pub w_restart: u32,
    pub p_large: f64,
    pub p_fail_stmt: f64,
    pub p_dup: f64,
    pub max_rounds: usize,
    /// which property's bias produced this config (informational)
    pub focus: String,
}

pub type Pool = BTreeMap<MsgKey, Msg>;
