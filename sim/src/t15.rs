//! Schema tier (C15): one real node, sequences of schema submissions through the
//! real `api_v1_db_schema` (additive ones and forbidden edits at any statement
//! position) against tables holding rows, with crashes and graceful restarts.

use std::{collections::BTreeMap, path::Path};

use klukai_types::schema::init_schema;
use rusqlite::types::Value;
use serde::{Deserialize, Serialize};
use serde_json::json;

use crate::{
    SimError,
    model::{P, Stmt, render},
    node::{Knobs, Node, R, seeded_actor, snapshot_dir, stmt},
    rng::Rng,
    trace::{RunOutcome, Stats, Violation, fnv},
};

#[derive(Serialize, Deserialize, Clone, Debug, PartialEq)]
#[serde(tag = "op")]
pub enum Ev {
    /// submit these statements as one schema change
    Schema { stmts: Vec<String>, intent: String },
    Write { stmts: Vec<Stmt> },
    Crash,
    Restart,
}

#[derive(Clone, Debug)]
struct Col {
    name: String,
    decl: String, // e.g. "TEXT NOT NULL DEFAULT ''"
}

#[derive(Clone, Debug)]
struct Tbl {
    name: String,
    pk: Vec<(String, String)>, // (name, type)
    cols: Vec<Col>,
    indexes: Vec<(String, String)>, // (name, column list)
}

impl Tbl {
    fn sql(&self) -> Vec<String> {
        let mut parts: Vec<String> = vec![];
        if self.pk.len() == 1 {
            parts.push(format!("{} {} NOT NULL PRIMARY KEY", self.pk[0].0, self.pk[0].1));
        } else {
            for (n, t) in &self.pk {
                parts.push(format!("{n} {t} NOT NULL"));
            }
        }
        for c in &self.cols {
            parts.push(format!("{} {}", c.name, c.decl));
        }
        if self.pk.len() > 1 {
            parts.push(format!("PRIMARY KEY ({})", self.pk.iter().map(|p| p.0.clone()).collect::<Vec<_>>().join(", ")));
        }
        let mut out = vec![format!("CREATE TABLE {} ({});", self.name, parts.join(", "))];
        for (n, cols) in &self.indexes {
            out.push(format!("CREATE INDEX {n} ON {} ({cols});", self.name));
        }
        out
    }
}

pub fn generate(seed: u64) -> Vec<Ev> {
    let mut r = Rng::new(seed).fork("t15");
    let mut tables: Vec<Tbl> = vec![Tbl {
        name: "s1".into(),
        pk: vec![("id".into(), "INTEGER".into())],
        cols: vec![Col { name: "a".into(), decl: "TEXT NOT NULL DEFAULT ''".into() }, Col { name: "b".into(), decl: "INTEGER".into() }],
        indexes: vec![],
    }];
    let mut evs = vec![Ev::Schema { stmts: tables[0].sql(), intent: "initial".into() }];
    let mut next_col = 0;
    let mut next_tbl = 2;
    let mut next_idx = 0;
    let mut row = 0i64;
    let steps = r.range(3, 14);
    for _ in 0..steps {
        match r.weighted(&[35, 35, 8, 5]) {
            0 => {
                // rows into a random table
                let t = r.pick(&tables).clone();
                let mut stmts = vec![];
                for _ in 0..r.range(1, 4) {
                    row += 1;
                    let mut names: Vec<String> = t.pk.iter().map(|p| p.0.clone()).collect();
                    let mut params: Vec<P> = t.pk.iter().map(|(_, ty)| if ty == "TEXT" { P::T(format!("k{row}")) } else { P::I(row) }).collect();
                    for c in t.cols.iter() {
                        if r.chance(0.7) {
                            names.push(c.name.clone());
                            params.push(if c.decl.starts_with("INTEGER") || c.decl.starts_with("REAL") { P::I(row * 10) } else { P::T(format!("v{row}")) });
                        }
                    }
                    let q = vec!["?"; names.len()].join(",");
                    stmts.push(Stmt { sql: format!("INSERT INTO {} ({}) VALUES ({q})", t.name, names.join(",")), params });
                }
                evs.push(Ev::Write { stmts });
            }
            1 => {
                // one schema submission of 1-3 table definitions with a seeded edit
                let mut sub: Vec<String> = vec![];
                let mut intent = vec![];
                let n = r.range(1, 3);
                let mut staged = tables.clone();
                let mut used: Vec<usize> = vec![];
                for _ in 0..n {
                    let kind = r.weighted(&[14, 18, 8, 8, 6, 6, 6, 6, 5, 5, 5, 5, 4, 4, 5, 8]);
                    // each table is (re)defined at most once per submission
                    let free: Vec<usize> = (0..staged.len()).filter(|i| !used.contains(i)).collect();
                    if free.is_empty() && kind != 0 {
                        break;
                    }
                    let ti = if free.is_empty() { 0 } else { *r.pick(&free) };
                    if kind != 0 {
                        used.push(ti);
                    }
                    match kind {
                        0 => {
                            let t = Tbl {
                                name: format!("s{next_tbl}"),
                                pk: if r.chance(0.3) { vec![("k1".into(), "TEXT".into()), ("k2".into(), "INTEGER".into())] } else { vec![("id".into(), "INTEGER".into())] },
                                cols: vec![Col { name: "x".into(), decl: "TEXT".into() }],
                                indexes: vec![],
                            };
                            next_tbl += 1;
                            sub.extend(t.sql());
                            used.push(staged.len());
                            staged.push(t);
                            intent.push("new-table");
                        }
                        1 => {
                            next_col += 1;
                            let decl = r.pick(&["TEXT", "INTEGER", "TEXT NOT NULL DEFAULT 'd'", "INTEGER NOT NULL DEFAULT 7", "REAL DEFAULT 1.5", "BLOB", "VARCHAR(16)", "VARCHAR(16)"]).to_string();
                            staged[ti].cols.push(Col { name: format!("c{next_col}"), decl });
                            sub.extend(staged[ti].sql());
                            intent.push("add-column");
                        }
                        2 => {
                            next_idx += 1;
                            let col = staged[ti].cols.first().map(|c| c.name.clone()).unwrap_or("id".into());
                            let name = format!("i{next_idx}_{}", staged[ti].name);
                            staged[ti].indexes.push((name, col));
                            sub.extend(staged[ti].sql());
                            intent.push("add-index");
                        }
                        3 => {
                            if !staged[ti].indexes.is_empty() {
                                staged[ti].indexes.pop();
                                intent.push("drop-index");
                            } else {
                                intent.push("resubmit-identical");
                            }
                            sub.extend(staged[ti].sql());
                        }
                        4 => {
                            if !staged[ti].indexes.is_empty() && r.chance(0.6) {
                                // same name, other definition
                                let t = &mut staged[ti];
                                let other = t.cols.last().map(|c| c.name.clone()).unwrap_or("id".into());
                                let k = r.usize_below(t.indexes.len());
                                let cur = t.indexes[k].1.clone();
                                t.indexes[k].1 = if cur.contains(',') { other } else { format!("{cur}, {}", t.pk[0].0) };
                                intent.push("change-index");
                            } else {
                                intent.push("resubmit-identical");
                            }
                            sub.extend(staged[ti].sql());
                        }
                        // ---- forbidden edits (staged is NOT updated: if accepted, the oracle shows what changed)
                        5 => {
                            let mut t = staged[ti].clone();
                            if t.cols.len() > 1 {
                                t.cols.remove(r.usize_below(t.cols.len()));
                            }
                            sub.extend(t.sql());
                            intent.push("FORBIDDEN-drop-column");
                        }
                        6 => {
                            let mut t = staged[ti].clone();
                            if let Some(c) = t.cols.first_mut() {
                                c.decl = if c.decl.starts_with("TEXT") { "INTEGER".into() } else { "TEXT".into() };
                            }
                            sub.extend(t.sql());
                            intent.push("FORBIDDEN-change-type");
                        }
                        7 => {
                            let mut t = staged[ti].clone();
                            if let Some(c) = t.cols.first_mut() {
                                c.decl = format!("{} DEFAULT 'zz{next_col}'", c.decl.split(" DEFAULT").next().unwrap_or("TEXT"));
                            }
                            sub.extend(t.sql());
                            intent.push("FORBIDDEN-change-default");
                        }
                        8 => {
                            let mut t = staged[ti].clone();
                            t.pk[0].1 = if t.pk[0].1 == "INTEGER" { "TEXT".into() } else { "INTEGER".into() };
                            sub.extend(t.sql());
                            intent.push("FORBIDDEN-change-pk-type");
                        }
                        9 => {
                            let mut t = staged[ti].clone();
                            t.pk.push(("pk_extra".into(), "INTEGER".into()));
                            sub.extend(t.sql());
                            intent.push("FORBIDDEN-add-pk-column");
                        }
                        10 => {
                            let t = staged[ti].clone();
                            let mut s = t.sql();
                            s.push(format!("CREATE UNIQUE INDEX u_{}_{next_idx} ON {} ({});", t.name, t.name, t.cols.first().map(|c| c.name.clone()).unwrap_or("id".into())));
                            next_idx += 1;
                            sub.extend(s);
                            intent.push("FORBIDDEN-unique-index");
                        }
                        11 => {
                            let mut t = staged[ti].clone();
                            next_col += 1;
                            t.cols.push(Col { name: format!("c{next_col}"), decl: "INTEGER NOT NULL".into() });
                            sub.extend(t.sql());
                            intent.push("FORBIDDEN-not-null-without-default");
                        }
                        12 => {
                            let mut t = staged[ti].clone();
                            next_col += 1;
                            t.cols.push(Col { name: format!("c{next_col}"), decl: "INTEGER REFERENCES s1 (id)".into() });
                            sub.extend(t.sql());
                            intent.push("FORBIDDEN-foreign-key");
                        }
                        15 => {
                            // an edit that keeps name, type name, nullability, default and key of an
                            // existing column: type length, collation or a check constraint
                            let mut t = staged[ti].clone();
                            if let Some(c) = t.cols.iter_mut().find(|c| c.decl.starts_with("VARCHAR(16)")) {
                                c.decl = c.decl.replacen("VARCHAR(16)", "VARCHAR(64)", 1);
                            } else if let Some(c) = t.cols.iter_mut().find(|c| c.decl.starts_with("TEXT")) {
                                let (head, tail) = c.decl.split_at(4);
                                c.decl = if r.chance(0.5) { format!("{head}{tail} COLLATE NOCASE") } else { format!("{head}{tail} CHECK (length({}) >= 0)", c.name) };
                            }
                            sub.extend(t.sql());
                            intent.push("FORBIDDEN-change-column-definition-detail");
                        }
                        13 => {
                            let t = staged[ti].clone();
                            let mut s = t.sql();
                            s.push(format!("CREATE INDEX bad_{}_{next_idx} ON {} (no_such_column);", t.name, t.name));
                            next_idx += 1;
                            sub.extend(s);
                            intent.push("FORBIDDEN-index-on-missing-column");
                        }
                        _ => {
                            let mut s = staged[ti].sql();
                            let pos = r.usize_below(s.len() + 1);
                            s.insert(pos, "CREATE TABLE oops (id INTEGER NOT NULL PRIMARY KEY, ;".into());
                            sub.extend(s);
                            intent.push("FORBIDDEN-syntax-error");
                        }
                    }
                }
                let intent = intent.join("+");
                if !intent.contains("FORBIDDEN") {
                    tables = staged;
                }
                evs.push(Ev::Schema { stmts: sub, intent });
            }
            2 => evs.push(Ev::Crash),
            _ => evs.push(Ev::Restart),
        }
    }
    evs
}

#[derive(Clone, Debug, PartialEq)]
struct Snapshot {
    /// table -> column -> (type, notnull, default, pk)
    tables: BTreeMap<String, BTreeMap<String, (String, i64, String, i64)>>,
    /// sqlite_schema + __corro_schema text
    ddl: Vec<String>,
    /// table -> rows rendered over all columns (ordered by rowid)
    rows: BTreeMap<String, Vec<BTreeMap<String, String>>>,
    agent_schema: BTreeMap<String, Vec<String>>,
    own_version: u64,
}

async fn snapshot(n: &Node) -> R<Snapshot> {
    let conn = n.agent.pool().read().await.map_err(|e| SimError::Harness(e.to_string()))?;
    let names: Vec<String> = conn
        .prepare("SELECT name FROM sqlite_schema WHERE type = 'table' AND name NOT LIKE '\\_\\_corro%' ESCAPE '\\' AND name NOT LIKE 'crsql%' AND name NOT LIKE '%\\_\\_crsql%' ESCAPE '\\' AND name NOT LIKE 'sqlite%' ORDER BY name")?
        .query_map([], |r| r.get(0))?
        .collect::<rusqlite::Result<_>>()?;
    let mut tables = BTreeMap::new();
    let mut rows = BTreeMap::new();
    for t in names.iter() {
        let mut cols = BTreeMap::new();
        let mut st = conn.prepare(&format!("PRAGMA table_info({t})"))?;
        let mut rs = st.query([])?;
        let mut colnames = vec![];
        while let Some(r) = rs.next()? {
            let name: String = r.get(1)?;
            let ty: String = r.get(2)?;
            let notnull: i64 = r.get(3)?;
            let dflt: Value = r.get(4)?;
            let pk: i64 = r.get(5)?;
            colnames.push(name.clone());
            cols.insert(name, (ty.to_uppercase(), notnull, render(&dflt), pk));
        }
        tables.insert(t.clone(), cols);
        let mut st = conn.prepare(&format!("SELECT * FROM {t} ORDER BY 1, 2"))?;
        let n = st.column_count();
        let mut rs = st.query([])?;
        let mut out = vec![];
        while let Some(r) = rs.next()? {
            let mut m = BTreeMap::new();
            for i in 0..n {
                let v: Value = r.get(i)?;
                m.insert(colnames[i].clone(), render(&v));
            }
            out.push(m);
        }
        rows.insert(t.clone(), out);
    }
    let mut ddl: Vec<String> = conn
        .prepare("SELECT type || ':' || name || ':' || COALESCE(sql, '') FROM sqlite_schema WHERE name NOT LIKE 'sqlite%' ORDER BY 1")?
        .query_map([], |r| r.get(0))?
        .collect::<rusqlite::Result<_>>()?;
    let corro: Vec<String> = conn
        .prepare("SELECT tbl_name || ':' || type || ':' || name || ':' || sql FROM __corro_schema ORDER BY 1")?
        .query_map([], |r| r.get(0))?
        .collect::<rusqlite::Result<_>>()?;
    ddl.extend(corro.into_iter().map(|s| format!("corro:{s}")));
    let agent_schema: BTreeMap<String, Vec<String>> = {
        let s = n.agent.schema().read();
        s.tables
            .iter()
            .map(|(name, t)| {
                let mut cols: Vec<String> = t.columns.iter().map(|(c, col)| format!("{c}:{}:{}:{:?}:{}:{:?}", col.sql_type.1.clone().unwrap_or_default(), col.nullable, col.default_value, col.primary_key, col.raw)).collect();
                cols.sort();
                let mut idx: Vec<String> = t.indexes.iter().map(|(k, ix)| format!("index:{k}:{:?}:{:?}", ix.columns, ix.where_clause)).collect();
                idx.sort();
                cols.extend(idx);
                (name.clone(), cols)
            })
            .collect()
    };
    let own_version = n.agent.booked().read::<&str, _>("sim", None).await.last().map(|v| v.0).unwrap_or(0);
    Ok(Snapshot { tables, ddl, rows, agent_schema, own_version })
}

fn schema_from_db(n: &Node, conn: &rusqlite::Connection) -> R<BTreeMap<String, Vec<String>>> {
    let _ = n;
    let s = init_schema(conn).map_err(|e| SimError::Harness(format!("init_schema: {e}")))?;
    Ok(s.tables
        .iter()
        .map(|(name, t)| {
            let mut cols: Vec<String> = t.columns.iter().map(|(c, col)| format!("{c}:{}:{}:{:?}:{}:{:?}", col.sql_type.1.clone().unwrap_or_default(), col.nullable, col.default_value, col.primary_key, col.raw)).collect();
            cols.sort();
            let mut idx: Vec<String> = t.indexes.iter().map(|(k, ix)| format!("index:{k}:{:?}:{:?}", ix.columns, ix.where_clause)).collect();
            idx.sort();
            cols.extend(idx);
            (name.clone(), cols)
        })
        .collect())
}

fn vio(class: &str, detail: serde_json::Value) -> Violation {
    Violation::new("C15", class, detail)
}

pub async fn run_events(seed: u64, events: &[Ev], base: &Path, tag: &str) -> R<RunOutcome> {
    let dir = base.join(format!("t15-{}-{seed:016x}-{tag}", std::process::id()));
    let _ = std::fs::remove_dir_all(&dir);
    std::fs::create_dir_all(&dir)?;
    let actor = seeded_actor(seed, 0);
    let mut node_dir = dir.join("n0-0");
    let mut node = Some(Node::boot(0, node_dir.clone(), actor, Knobs::default()).await?);
    let mut incarnation = 0;
    let mut stats = Stats::default();
    let mut violation: Option<Violation> = None;
    let mut done = vec![];
    let mut log = vec![];
    'outer: for (i, ev) in events.iter().enumerate() {
        done.push(ev.clone());
        stats.steps += 1;
        let n = node.as_mut().unwrap();
        match ev {
            Ev::Schema { stmts, intent } => {
                stats.ev("Schema");
                let before = snapshot(n).await?;
                let (status, resp) = n.schema(stmts.clone()).await;
                n.quiesce().await?;
                let after = snapshot(n).await?;
                stats.oracle_checks += 1;
                log.push(format!("schema {intent}: {status}"));
                if intent.contains("FORBIDDEN") {
                    stats.fault(intent.split('+').find(|s| s.contains("FORBIDDEN")).unwrap_or("forbidden"));
                }
                let v = if status == 200 {
                    stats.probe("schema.accepted");
                    if intent.contains("FORBIDDEN") {
                        stats.probe("schema.accepted-despite-forbidden-intent");
                    }
                    if intent.contains("new-table") {
                        stats.probe("schema.accepted-new-table");
                    }
                    let mut v = None;
                    // additive: every existing table / column definition unchanged, every row kept
                    for (t, cols) in before.tables.iter() {
                        match after.tables.get(t) {
                            None => v = Some(vio("table-dropped", json!({"table": t, "intent": intent}))),
                            Some(ac) => {
                                for (c, def) in cols {
                                    match ac.get(c) {
                                        None => v = Some(vio("column-dropped", json!({"table": t, "column": c, "intent": intent}))),
                                        Some(d2) if d2 != def => {
                                            v = Some(vio("existing-column-definition-changed", json!({"table": t, "column": c, "before": format!("{def:?}"), "after": format!("{d2:?}"), "intent": intent})))
                                        }
                                        _ => {}
                                    }
                                }
                            }
                        }
                        // rows: projection on the old columns must be identical
                        let b = &before.rows[t];
                        let a = after.rows.get(t).cloned().unwrap_or_default();
                        let proj: Vec<BTreeMap<String, String>> = a.iter().map(|r| r.iter().filter(|(k, _)| cols.contains_key(*k)).map(|(k, v)| (k.clone(), v.clone())).collect()).collect();
                        if &proj != b {
                            v = Some(vio("rows-changed-by-schema-change", json!({"table": t, "rows_before": b.len(), "rows_after": a.len(), "intent": intent})));
                        }
                    }
                    if after.own_version != before.own_version && intent == "resubmit-identical" {
                        v = Some(vio("reapplying-schema-consumed-a-version", json!({"before": before.own_version, "after": after.own_version})));
                    }
                    if intent == "resubmit-identical" && (after.ddl != before.ddl || after.agent_schema != before.agent_schema) {
                        v = Some(vio("reapplying-identical-schema-changed-something", json!({"ddl_diff": crate::model::first_diff(&before.ddl, &after.ddl)})));
                    }
                    v
                } else {
                    stats.probe("schema.rejected");
                    if intent.contains("new-table") || intent.contains("add-") {
                        stats.probe("schema.rejected-after-valid-statements");
                    }
                    if !intent.contains("FORBIDDEN") {
                        stats.probe("schema.rejected-without-forbidden-intent");
                    }
                    let _ = resp;
                    if after != before {
                        let what = if after.tables != before.tables {
                            "tables"
                        } else if after.rows != before.rows {
                            "rows"
                        } else if after.ddl != before.ddl {
                            "ddl"
                        } else if after.agent_schema != before.agent_schema {
                            "in-memory-schema"
                        } else {
                            "own-version"
                        };
                        Some(vio("rejected-schema-change-had-an-effect", json!({"changed": what, "intent": intent, "ddl_diff": crate::model::first_diff(&before.ddl, &after.ddl)})))
                    } else {
                        None
                    }
                };
                // in-memory schema == what a reload from the database gives
                let v = match v {
                    Some(v) => Some(v),
                    None => {
                        let conn = n.agent.pool().read().await.map_err(|e| SimError::Harness(e.to_string()))?;
                        let from_db = schema_from_db(n, &conn)?;
                        if from_db != after.agent_schema {
                            let a: Vec<String> = after.agent_schema.iter().map(|(k, v)| format!("{k}:{v:?}")).collect();
                            let b: Vec<String> = from_db.iter().map(|(k, v)| format!("{k}:{v:?}")).collect();
                            Some(vio("in-memory-schema-differs-from-database", json!({"intent": intent, "diff(memory,database)": crate::model::first_diff(&a, &b)})))
                        } else {
                            None
                        }
                    }
                };
                if let Some(mut v) = v {
                    v.step = i + 1;
                    violation = Some(v);
                    break 'outer;
                }
            }
            Ev::Write { stmts } => {
                stats.ev("Write");
                let api = stmts.iter().map(|s| stmt(&s.sql, s.params.iter().map(|p| p.to_param()).collect())).collect();
                let (status, resp) = n.write(api, None).await?;
                let _ = std::mem::take(&mut n.outbox);
                if std::env::var_os("VERIF_TRACE").is_some() && status != 200 {
                    eprintln!("LOG   write failed: {:?}", crate::node::exec_errors(&resp));
                }
                log.push(format!("write {status}"));
                stats.oracle_checks += 1;
                // only statements that fit the database as it is (a minimised history may have
                // lost the submission that created the table)
                let fits = {
                    let snap = snapshot(n).await?;
                    stmts.iter().all(|st| {
                        let rest = st.sql.strip_prefix("INSERT INTO ").unwrap_or("");
                        let (t, rest) = rest.split_once(" (").unwrap_or(("", ""));
                        let cols = rest.split_once(')').map(|x| x.0).unwrap_or("");
                        match snap.tables.get(t) {
                            Some(tc) => cols.split(',').all(|c| tc.contains_key(c.trim())),
                            None => false,
                        }
                    })
                };
                if status != 200 && fits {
                    // the statements only use tables / columns of accepted submissions: the node
                    // must still be able to work with the schema it has
                    let mut v = vio(
                        "valid-write-fails-after-schema-submissions",
                        json!({"status": status, "errors": crate::node::exec_errors(&resp), "statements": stmts.iter().map(|s| s.sql.clone()).collect::<Vec<_>>()}),
                    );
                    v.step = i + 1;
                    violation = Some(v);
                    break 'outer;
                }
            }
            Ev::Crash | Ev::Restart => {
                let crash = matches!(ev, Ev::Crash);
                stats.ev(if crash { "Crash" } else { "Restart" });
                stats.fault(if crash { "crash" } else { "graceful-restart" });
                let before = snapshot(n).await?;
                let old = node.take().unwrap();
                if crash {
                    incarnation += 1;
                    let nd = dir.join(format!("n0-{incarnation}"));
                    snapshot_dir(&old.dir, &nd)?;
                    old.trip().await;
                    drop(old);
                    node_dir = nd;
                } else {
                    old.shutdown_graceful().await?;
                }
                let nn = Node::boot(0, node_dir.clone(), actor, Knobs::default()).await?;
                let after = snapshot(&nn).await?;
                node = Some(nn);
                stats.oracle_checks += 1;
                if after.agent_schema != before.agent_schema || after.tables != before.tables || after.rows != before.rows {
                    let a: Vec<String> = before.agent_schema.iter().map(|(k, v)| format!("{k}:{v:?}")).collect();
                    let b: Vec<String> = after.agent_schema.iter().map(|(k, v)| format!("{k}:{v:?}")).collect();
                    let mut v = vio("schema-or-rows-differ-after-restart", json!({"crash": crash, "diff(before,after)": crate::model::first_diff(&a, &b)}));
                    v.step = i + 1;
                    violation = Some(v);
                    break 'outer;
                }
                log.push("restart".into());
            }
        }
    }
    let mut sh = 0xcbf2_9ce4_8422_2325;
    for e in &done {
        let s = match e {
            Ev::Schema { intent, .. } => format!("S[{intent}]"),
            Ev::Write { stmts } => format!("W{}", stmts.len()),
            Ev::Crash => "K".into(),
            Ev::Restart => "G".into(),
        };
        fnv(&mut sh, s.as_bytes());
    }
    stats.schedule_hash = sh;
    stats.nontrivial = stats.faults.values().sum::<u64>() > 0;
    stats.converged = violation.is_none();
    let mut h = 0xcbf2_9ce4_8422_2325;
    for l in &log {
        if std::env::var_os("VERIF_TRACE").is_some() {
            eprintln!("LOG {l}");
        }
        fnv(&mut h, l.as_bytes());
    }
    drop(node);
    let _ = std::fs::remove_dir_all(&dir);
    Ok(RunOutcome {
        seed,
        tier: "t15".into(),
        config: json!({}),
        events: done.iter().map(|e| serde_json::to_value(e).unwrap()).collect(),
        violation,
        known: vec![],
        stats,
        log_digest: h,
    })
}
