//! Violations, run outcomes, statistics and replay files.

use std::collections::BTreeMap;

use serde::{Deserialize, Serialize};

#[derive(Serialize, Deserialize, Clone, Debug, PartialEq)]
pub struct Violation {
    pub property: String,
    /// oracle class; minimisation keeps a candidate only if (property, class) recurs
    pub class: String,
    pub step: usize,
    pub detail: serde_json::Value,
}

impl Violation {
    pub fn new(property: &str, class: &str, detail: serde_json::Value) -> Self {
        Violation {
            property: property.to_string(),
            class: class.to_string(),
            step: 0,
            detail,
        }
    }
}

#[derive(Serialize, Deserialize, Clone, Debug, Default)]
pub struct Stats {
    pub events: BTreeMap<String, u64>,
    pub faults: BTreeMap<String, u64>,
    pub probes: BTreeMap<String, u64>,
    pub steps: u64,
    pub oracle_checks: u64,
    /// hash of the abstract schedule (event kinds + node ids + message classes)
    pub schedule_hash: u64,
    /// hashes of distinct bookkeeping states seen (bounded)
    pub states: Vec<u64>,
    pub nontrivial: bool,
    pub converged: bool,
    pub virtual_ms: u64,
}

impl Stats {
    pub fn ev(&mut self, k: &str) {
        *self.events.entry(k.to_string()).or_default() += 1;
    }
    pub fn fault(&mut self, k: &str) {
        *self.faults.entry(k.to_string()).or_default() += 1;
    }
    pub fn probe(&mut self, k: &str) {
        if k.starts_with("model.") && std::env::var_os("VERIF_TRACE_MODEL").is_some() {
            eprintln!("    probe {k}");
        }
        *self.probes.entry(k.to_string()).or_default() += 1;
    }
    pub fn probe_n(&mut self, k: &str, n: u64) {
        if n > 0 {
            *self.probes.entry(k.to_string()).or_default() += n;
        }
    }
}

#[derive(Serialize, Deserialize, Clone, Debug)]
pub struct RunOutcome {
    pub seed: u64,
    pub tier: String,
    pub config: serde_json::Value,
    pub events: Vec<serde_json::Value>,
    pub violation: Option<Violation>,
    /// known findings met on the way (signature strings); do not end the run
    pub known: Vec<String>,
    pub stats: Stats,
    /// canonical log digest (determinism proof compares these)
    pub log_digest: u64,
}

#[derive(Serialize, Deserialize, Clone, Debug)]
pub struct ReplayFile {
    pub property: String,
    pub tier: String,
    pub check: String,
    pub seed: u64,
    pub config: serde_json::Value,
    pub events: Vec<serde_json::Value>,
    pub violation: Violation,
    pub minimised: bool,
    pub original_events: usize,
}

pub fn fnv(h: &mut u64, bytes: &[u8]) {
    for b in bytes {
        *h ^= *b as u64;
        *h = h.wrapping_mul(0x100_0000_01B3);
    }
}

pub fn fnv_str(s: &str) -> u64 {
    let mut h = 0xcbf2_9ce4_8422_2325;
    fnv(&mut h, s.as_bytes());
    h
}

/// Known findings: committed file, never written at run time.
#[derive(Serialize, Deserialize, Clone, Debug)]
pub struct KnownFinding {
    pub property: String,
    pub status: String, // "open" | "fixed"
    pub signature: String,
    pub what: String,
    #[serde(default)]
    pub commit: Option<String>,
}

pub fn load_known_findings(path: &str) -> Vec<KnownFinding> {
    let Ok(s) = std::fs::read_to_string(path) else {
        return vec![];
    };
    s.lines()
        .filter(|l| !l.trim().is_empty() && !l.trim_start().starts_with('#'))
        .filter_map(|l| serde_json::from_str(l).ok())
        .collect()
}
