//! T8: membership tier (C18). The real `Members` structure driven by scripted
//! SWIM notifications (stale, duplicated, out-of-order, renewed identities,
//! address and cluster changes) interleaved with RTT samples, checked against a
//! fold model after every operation.

use std::{
    collections::{BTreeMap, BTreeSet},
    net::SocketAddr,
    time::Duration,
};

use klukai_types::{
    actor::{Actor, ActorId, ClusterId},
    broadcast::Timestamp,
    members::Members,
};
use serde::{Deserialize, Serialize};
use serde_json::json;

use crate::{
    node::R,
    rng::Rng,
    trace::{RunOutcome, Stats, Violation, fnv},
};

#[derive(Serialize, Deserialize, Clone, Debug, PartialEq)]
#[serde(tag = "op")]
pub enum Op {
    Up { actor: u8, ts: u64, addr: u8, cluster: u16 },
    Down { actor: u8, ts: u64, addr: u8, cluster: u16 },
    Rtt { addr: u8, ms: u64 },
}

fn actor_id(i: u8) -> ActorId {
    let mut b = [0u8; 16];
    b[0] = 0x20 + i;
    b[6] = 0x40;
    b[8] = 0x80;
    b[15] = i;
    ActorId(uuid::Uuid::from_bytes(b))
}

fn addr(i: u8) -> SocketAddr {
    format!("10.0.0.{}:{}", 1 + i, 4000 + i as u16).parse().unwrap()
}

fn actor(a: u8, ts: u64, ad: u8, cluster: u16) -> Actor {
    // ts in seconds resolution so that to_duration() ordering is the ordering of `ts`
    Actor::new(
        actor_id(a),
        addr(ad),
        Timestamp::from(uhlc_ntp(ts)),
        ClusterId(cluster),
    )
}

fn uhlc_ntp(secs: u64) -> u64 {
    // NTP64: upper 32 bits seconds
    secs << 32
}

const BUCKETS: [(u64, u64); 6] = [(0, 6), (6, 15), (15, 50), (50, 100), (100, 200), (200, 300)];

#[derive(Clone, Debug, PartialEq)]
enum Last {
    Up { addr: u8, cluster: u16 },
    Down,
}

#[derive(Default)]
struct Model {
    /// per actor: (newest ts seen, last notification about that identity)
    newest: BTreeMap<u8, (u64, Last)>,
    /// samples per address, newest first (at most 20 count)
    samples: BTreeMap<u8, Vec<u64>>,
    /// last determinable ring per actor (kept when the average falls outside every bucket)
    ring: BTreeMap<u8, Option<u8>>,
}

impl Model {
    fn present(&self) -> BTreeMap<u8, (u64, u8, u16)> {
        self.newest
            .iter()
            .filter_map(|(a, (ts, last))| match last {
                Last::Up { addr, cluster } => Some((*a, (*ts, *addr, *cluster))),
                Last::Down => None,
            })
            .collect()
    }
    fn avg(&self, ad: u8) -> Option<u64> {
        self.samples
            .get(&ad)
            .filter(|v| !v.is_empty())
            .map(|v| v.iter().sum::<u64>() / v.len() as u64)
    }
    fn bucket(avg: u64) -> Option<u8> {
        BUCKETS
            .iter()
            .position(|(lo, hi)| *lo <= avg && avg < *hi)
            .map(|i| i as u8)
    }
}

pub struct Cfg {
    pub peers: u8,
    pub addrs: u8,
    pub ops: usize,
}

pub fn generate(seed: u64) -> (Vec<Op>, serde_json::Value) {
    let mut r = Rng::new(seed);
    let peers = r.range(1, 6) as u8;
    let addrs = r.range(2, 8) as u8;
    let n = r.range(3, 60) as usize;
    let p_rtt = if r.chance(0.7) { r.f64() * 0.4 } else { 0.0 };
    let p_stale = r.f64() * 0.4;
    let p_move = if r.chance(0.6) { r.f64() * 0.5 } else { 0.0 };
    let clusters: u16 = if r.chance(0.5) { 1 } else { 3 };
    // identities per actor: (ts, addr, cluster), ts non-decreasing per actor
    let mut ids: Vec<Vec<(u64, u8, u16)>> = vec![];
    for a in 0..peers {
        let k = r.range(1, 4) as usize;
        let mut ts = r.range(1, 5);
        let mut ad = (a % addrs) as u8;
        let mut v = vec![];
        for _ in 0..k {
            v.push((ts, ad, r.below(clusters as u64) as u16));
            ts += r.range(1, 3);
            if r.chance(p_move) {
                ad = r.below(addrs as u64) as u8;
            }
        }
        ids.push(v);
    }
    let mut ops = vec![];
    // bookkeeping for the SWIM constraint + address exclusivity
    let mut max_down: BTreeMap<u8, u64> = BTreeMap::new();
    let mut model = Model::default();
    for _ in 0..n {
        if r.chance(p_rtt) {
            let ms = if r.chance(0.1) { r.range(300, 2000) } else { *r.pick(&[0u64, 1, 3, 5, 6, 9, 14, 15, 30, 49, 50, 80, 120, 199, 250, 299]) };
            ops.push(Op::Rtt { addr: r.below(addrs as u64) as u8, ms });
            continue;
        }
        let a = r.below(peers as u64) as u8;
        let idl = &ids[a as usize];
        // mostly the newest known-or-next identity; sometimes a stale one
        let newest_idx = model
            .newest
            .get(&a)
            .map(|(ts, _)| idl.iter().position(|i| i.0 == *ts).unwrap_or(0))
            .unwrap_or(0);
        let idx = if r.chance(p_stale) {
            r.usize_below(idl.len())
        } else {
            (newest_idx + r.usize_below(2)).min(idl.len() - 1)
        };
        let (ts, ad, cl) = idl[idx];
        let up = r.chance(0.6);
        if up {
            // SWIM: an up never carries an identity older than one already reported down
            if max_down.get(&a).is_some_and(|d| ts < *d) {
                continue;
            }
            // one live member per address (foca resolves address conflicts before notifying)
            let taken = model
                .present()
                .iter()
                .any(|(other, (_, oad, _))| *other != a && *oad == ad);
            if taken {
                continue;
            }
            ops.push(Op::Up { actor: a, ts, addr: ad, cluster: cl });
            apply_model(&mut model, ops.last().unwrap());
        } else {
            ops.push(Op::Down { actor: a, ts, addr: ad, cluster: cl });
            let e = max_down.entry(a).or_insert(0);
            *e = (*e).max(ts);
            apply_model(&mut model, ops.last().unwrap());
        }
    }
    (
        ops,
        json!({"peers": peers, "addrs": addrs, "p_stale": p_stale, "p_move": p_move, "clusters": clusters}),
    )
}

fn apply_model(m: &mut Model, op: &Op) {
    match op {
        Op::Up { actor, ts, addr, cluster } => {
            let e = m.newest.entry(*actor).or_insert((0, Last::Down));
            if *ts >= e.0 {
                *e = (*ts, Last::Up { addr: *addr, cluster: *cluster });
            }
        }
        Op::Down { actor, ts, .. } => {
            let e = m.newest.entry(*actor).or_insert((0, Last::Down));
            if *ts >= e.0 {
                *e = (*ts, Last::Down);
            }
        }
        Op::Rtt { addr, ms } => {
            let v = m.samples.entry(*addr).or_default();
            v.insert(0, *ms);
            v.truncate(20);
        }
    }
}

fn check(real: &Members, m: &mut Model, peers: u8, step: usize) -> Result<(), Violation> {
    let present = m.present();
    // presence / identity
    for a in 0..peers {
        let got = real.get(&actor_id(a));
        match (present.get(&a), got) {
            (None, Some(st)) => {
                return Err(Violation::new(
                    "C18",
                    "departed-peer-still-listed",
                    json!({"actor": a, "listed_addr": st.addr.to_string(), "step": step}),
                ));
            }
            (Some(_), None) => {
                return Err(Violation::new(
                    "C18",
                    "live-peer-not-listed",
                    json!({"actor": a, "step": step}),
                ));
            }
            (Some((ts, ad, cl)), Some(st)) => {
                if st.addr != addr(*ad) || st.cluster_id != ClusterId(*cl) || st.ts != Timestamp::from(uhlc_ntp(*ts)) {
                    return Err(Violation::new(
                        "C18",
                        "listed-with-older-identity",
                        json!({"actor": a, "listed_addr": st.addr.to_string(), "expected_addr": addr(*ad).to_string(),
                               "listed_cluster": st.cluster_id.0, "expected_cluster": cl, "step": step}),
                    ));
                }
            }
            (None, None) => {}
        }
    }
    // address index
    for (a, (_, ad, _)) in present.iter() {
        if real.by_addr.get(&addr(*ad)) != Some(&actor_id(*a)) {
            return Err(Violation::new(
                "C18",
                "current-address-not-indexed",
                json!({"actor": a, "addr": addr(*ad).to_string(), "step": step}),
            ));
        }
    }
    for (sa, id) in real.by_addr.iter() {
        let ok = present
            .iter()
            .any(|(a, (_, ad, _))| actor_id(*a) == *id && addr(*ad) == *sa);
        if !ok {
            return Err(Violation::new(
                "C18",
                "address-maps-to-departed-or-moved-peer",
                json!({"addr": sa.to_string(), "step": step}),
            ));
        }
    }
    // rings: determined by the samples of the member's current address
    let mut ring0: BTreeMap<u16, BTreeSet<SocketAddr>> = BTreeMap::new();
    for (a, (_, ad, cl)) in present.iter() {
        let st = real.get(&actor_id(*a)).unwrap();
        if let Some(avg) = m.avg(*ad) {
            let exp = match Model::bucket(avg) {
                Some(b) => Some(b),
                None => m.ring.get(a).copied().flatten(), // outside every bucket: unchanged
            };
            if Model::bucket(avg).is_some() && st.ring != exp {
                return Err(Violation::new(
                    "C18",
                    "ring-not-from-current-address-samples",
                    json!({"actor": a, "addr": addr(*ad).to_string(), "avg_ms": avg, "ring": st.ring, "expected": exp, "step": step}),
                ));
            }
            m.ring.insert(*a, st.ring);
            if st.ring == Some(0) && Model::bucket(avg) == Some(0) {
                ring0.entry(*cl).or_default().insert(addr(*ad));
            }
        } else {
            m.ring.insert(*a, st.ring);
            if st.ring == Some(0) {
                // no sample for the current address: a ring-0 rating cannot stem from it
                return Err(Violation::new(
                    "C18",
                    "ring0-without-samples-for-current-address",
                    json!({"actor": a, "addr": addr(*ad).to_string(), "step": step}),
                ));
            }
        }
    }
    for cl in 0..3u16 {
        let got: BTreeSet<SocketAddr> = real.ring0(ClusterId(cl)).collect();
        let exp = ring0.get(&cl).cloned().unwrap_or_default();
        // members whose average is outside every bucket keep an older rating: only require
        // that determinable ring-0 members are chosen and nobody of another cluster is
        if !exp.is_subset(&got) {
            return Err(Violation::new(
                "C18",
                "ring0-member-not-chosen",
                json!({"cluster": cl, "got": got.iter().map(|a| a.to_string()).collect::<Vec<_>>(), "step": step}),
            ));
        }
        for g in got.iter() {
            let ok = present.iter().any(|(_, (_, ad, c))| addr(*ad) == *g && *c == cl);
            if !ok {
                return Err(Violation::new(
                    "C18",
                    "ring0-picks-foreign-or-departed-member",
                    json!({"cluster": cl, "addr": g.to_string(), "step": step}),
                ));
            }
        }
    }
    Ok(())
}

pub fn execute(seed: u64, ops: &[Op], config: serde_json::Value) -> R<RunOutcome> {
    let peers = 8u8;
    let mut real = Members::default();
    let mut model = Model::default();
    let mut stats = Stats::default();
    let mut violation = None;
    let mut h = 0xcbf2_9ce4_8422_2325;
    let mut done = vec![];
    for (i, op) in ops.iter().enumerate() {
        done.push(op.clone());
        stats.steps += 1;
        match op {
            Op::Up { actor: a, ts, addr: ad, cluster } => {
                let stale = model.newest.get(a).is_some_and(|(t, _)| ts < t);
                let dup = model.newest.get(a).is_some_and(|(t, l)| ts == t && matches!(l, Last::Up { .. }));
                let moved = model
                    .newest
                    .get(a)
                    .is_some_and(|(t, l)| ts > t && matches!(l, Last::Up { addr: old, .. } if old != ad));
                if stale { stats.fault("stale-up"); }
                if dup { stats.fault("duplicate-up"); }
                if moved { stats.fault("renewed-with-address-change"); }
                stats.ev("Up");
                real.add_member(&actor(*a, *ts, *ad, *cluster));
            }
            Op::Down { actor: a, ts, addr: ad, cluster } => {
                let stale = model.newest.get(a).is_some_and(|(t, _)| ts < t);
                let newer = model.newest.get(a).is_some_and(|(t, _)| ts > t);
                if stale { stats.fault("stale-down"); }
                if newer { stats.fault("down-for-unseen-newer-identity"); }
                stats.ev("Down");
                real.remove_member(&actor(*a, *ts, *ad, *cluster));
            }
            Op::Rtt { addr: ad, ms } => {
                let former = !model.present().values().any(|(_, cur, _)| cur == ad);
                if former { stats.fault("rtt-for-unlisted-address"); }
                stats.ev("Rtt");
                real.add_rtt(addr(*ad), Duration::from_millis(*ms));
            }
        }
        apply_model(&mut model, op);
        fnv(&mut h, format!("{op:?}|{}", real.states.len()).as_bytes());
        stats.oracle_checks += 1;
        if let Err(mut v) = check(&real, &mut model, peers, i) {
            v.step = i + 1;
            violation = Some(v);
            break;
        }
    }
    let mut sh = 0xcbf2_9ce4_8422_2325;
    for op in &done {
        let s = match op {
            Op::Up { actor, addr, .. } => format!("U{actor}{addr}"),
            Op::Down { actor, .. } => format!("D{actor}"),
            Op::Rtt { addr, .. } => format!("R{addr}"),
        };
        fnv(&mut sh, s.as_bytes());
    }
    stats.schedule_hash = sh;
    stats.nontrivial = stats.faults.values().sum::<u64>() > 0 && done.len() >= 3;
    stats.converged = violation.is_none();
    Ok(RunOutcome {
        seed,
        tier: "t8".into(),
        config,
        events: done.iter().map(|o| serde_json::to_value(o).unwrap()).collect(),
        violation,
        known: vec![],
        stats,
        log_digest: h,
    })
}

pub fn run_generated(seed: u64) -> R<RunOutcome> {
    let (ops, cfg) = generate(seed);
    execute(seed, &ops, cfg)
}
