#!/bin/bash
# Apply a seeded change to /repo, run one check against it with scratch evidence, undo it.
# usage: ./mutcheck.sh <seeded-dir-or-patch> <check-id> [seconds]
set -u
P=$1; C=$2; S=${3:-60}
P=$(realpath "$P"); [ -d "$P" ] && P="$P/patch.diff"
if [ -n "$(git -C /repo status --porcelain)" ]; then echo "refusing: /repo has uncommitted changes"; exit 2; fi
git -C /repo apply "$P" || { echo "patch does not apply"; exit 2; }
mkdir -p /tmp/evid-mut
VERIF_EVID=/tmp/evid-mut VERIF_REPLAYS=/tmp/evid-mut/replays VERIF_SECS=$S /verif/check "$C" quick 2>&1 | grep -v "^KNOWN-FINDING" | tail -6
rc=${PIPESTATUS[0]}
git -C /repo checkout -- .
echo "check exit code: $rc (1 = the seeded change was caught)"
