#!/usr/bin/env python3
"""Regenerates MANIFEST.json from the tables below (kept in one place so it stays valid)."""
import json, subprocess

HOOK_COMMITS = subprocess.run(["git", "-C", "/repo", "log", "--format=%H %s"], capture_output=True, text=True).stdout.splitlines()
hooks = [l.split()[0] for l in HOOK_COMMITS if l.split(" ", 1)[1].startswith("verif hooks")]

T1_NOTE = ("Trusted base: SQLite + cr-sqlite merge (the reference databases use the same extension, no corrosion code). "
           "Step-serial: explores orders of whole handler calls, deliveries, syncs, background passes, crashes; not instruction-level "
           "races inside one call. QUIC/SWIM stubbed by the simulator's message pool. Seeded search: a clean batch is evidence, not proof.")

CLAIMS = {
 "C01": ("exploration", "Seeded deterministic simulation of 2-4 real nodes: conflicting histories, arbitrary delivery order / duplication / loss / re-chunking, partial sync sessions, crashes; after faults stop, fair sync rounds must reach identical tables and per-cell (col_version, cl) on all nodes, equal to a corrosion-free cr-sqlite merge of all acknowledged transactions; a fixpoint without convergence is a violation.", "3 C01"),
 "C02": ("exploration", "After every simulated step the advertised sync state of every node is compared with a holdings model built only from what the simulator delivered and what the steps acknowledged; gap rows, partial rows and a reload (BookedVersions::from_conn) are compared with the in-memory view.", "3 C02"),
 "C03": ("exploration", "After every step node tables and CRDT metadata must equal a reference database that merged exactly the changes delivered for versions the model says are applied (so nothing of an incomplete version is visible, and a complete one is visible entirely); apply triggers are checked against chunk coverage; buffered leftovers are checked after convergence. Workload biased to multi-chunk transactions, sim re-cuts and relays.", "3 C03"),
 "C04": ("exploration", "Every sync session of the simulated runs checks compute_available_needs against a set model over (actor, version, seq) of the two real states (including stale peer states): complete, within advertised heads, never the own actor. Decided on reached state pairs only. WireSync events additionally run the production client loop (parallel_sync) against 1-3 real servers (serve_sync) over the nodes' QUIC endpoints: the needs the client computed per server pass the same oracle, every Request frame read by a server lies inside the needs computed for it, and the union of all frames equals the union of the computed needs (request chunking and cross-server de-duplication lose nothing).", "3 C04"),
 "C05": ("exploration", "Every simulated sync session runs the real process_sync/handle_need against reached server states (applied, overwritten, cleared, partially buffered, needed) with computed and scripted needs; each answer is checked against the server's holdings model and live rows; never Empty for needed/partial versions.", "3 C05"),
 "C06": ("exploration", "Crashes are injected at arbitrary step boundaries (snapshot of db/wal/shm, restart through the production start-up path, optional loss of unsent broadcasts); after restart all per-step oracles (acknowledged writes present, advertised == durably held, re-scheduling of fully buffered versions) and finally convergence must hold.", "3 C06"),
 "C07": ("exploration", "Every local transaction of the simulated runs (including failing statements at any position, no-ops, large ones) is checked: version = previous+1, announcement chunks tile 0..=last_seq with exactly the committed changes, same statements on a reference database give the same tables, rejected/no-op requests change nothing and consume no version, no gap in own versions.", "3 C07"),
 "C08": ("exploration", "Every chunk sequence the real code emits in the simulated runs (broadcast of local transactions, sync answers for full and partial needs from live and buffered rows, chunk_range splits) is checked for exact tiling, containment and order. Decided on reached inputs only.", "3 C08"),
}

NOT_YET = {
 "C09": "no check built yet (planned: codec/byte-stream fault tier, DESIGN 3 C09)",
 "C10": "no check built yet (planned: ingest tier around the real handle_changes loop)",
 "C11": "no check built yet (planned: subscription tier)",
 "C12": "no check built yet (planned: subscription tier)",
 "C13": "no check built yet (planned: subscription tier + lifecycle)",
 "C14": "no check built yet (planned: updates feed tier)",
 "C15": "no check built yet (planned: schema tier)",
 "C16": "no check built yet (planned: wire tier)",
 "C17": "no check built yet (planned: HTTP tier)",
 "C18": "no check built yet (planned: membership tier)",
 "C19": "no check built yet (planned: backup/restore tier)",
 "C20": "no check built yet (planned: pool tier under virtual time + lock-order tier)",
}

TECH = "deterministic simulation with fault injection (seeded schedule/fault search over real nodes, reference-model oracles, replayable minimised traces)"

def main():
    import importlib.util, os
    extra = {}
    p = os.path.join(os.path.dirname(__file__), "manifest_extra.json")
    if os.path.exists(p):
        extra = json.load(open(p))
    claims = dict(CLAIMS); not_yet = dict(NOT_YET)
    for pid, c in extra.get("claims", {}).items():
        claims[pid] = tuple(c); not_yet.pop(pid, None)
    engines_of = extra.get("engine_of", {})
    checks = []
    for pid in sorted(claims):
        level, text, ref = claims[pid][:3]
        note = claims[pid][3] if len(claims[pid]) > 3 else T1_NOTE
        checks.append({
            "property_id": pid,
            "quick_cmd": f"./check {pid} quick",
            "thorough_cmd": f"./check {pid} thorough",
            "evidence_file": f"/verif/evidence/{pid}.json",
            "replay_cmd_template": f"./check {pid} --replay {{path}}",
            "engine": engines_of.get(pid, "corrosim/t1-cluster"),
            "level_claimed": {"category": level, "text": text, "design_ref": f"DESIGN.md section {ref}"},
            "level_note": note,
            "technique": TECH,
        })
    m = {
        "version": 1,
        "setup_cmd": "cd /verif/sim && CARGO_NET_OFFLINE=true cargo build --offline && cd /repo && CARGO_NET_OFFLINE=true CARGO_TARGET_DIR=/verif/target/cli cargo build --offline -p klukai",
        "hooks": {
            "guard": "cargo feature `verif` on klukai-types and klukai-agent (default features do not include it)",
            "enable": "the simulator crate depends on /repo/crates/klukai-{types,agent} by path with features = [\"verif\"]; every check runs `cargo build --offline` in /verif/sim first, which rebuilds the klukai crates from /repo's working tree",
            "baseline_off_cmd": "cd /repo && cargo nextest run --workspace --no-fail-fast --tool-config-file pb:/w/lib/nextest.toml --profile pb --test-threads 8 --offline",
            "source_commits": hooks,
            "add_only": True,
        },
        "engines": [
            {"name": "corrosim/t1-cluster", "path": "/verif/sim/src/t1", "serves_properties": sorted(p for p in claims if engines_of.get(p, "corrosim/t1-cluster") == "corrosim/t1-cluster"),
             "kind_free_text": "deterministic step-serial simulation of 2-4 real agents; the simulator owns every inter-node queue, the background scheduler and the crash injector"},
        ] + extra.get("engines", []),
        "checks": checks,
        "notes": "All checks share one binary (/verif/sim) and one driver (/verif/check). VERIF_SEED selects the batch seed (default fixed). Known findings: /verif/known_findings.jsonl. A T1 run evaluates the oracles of C01-C08 together; a violation is reported under the id of the property whose oracle failed.",
        "not_applicable": [{"property_id": k, "reason": v} for k, v in sorted(not_yet.items())],
    }
    json.dump(m, open(os.path.join(os.path.dirname(__file__), "MANIFEST.json"), "w"), indent=1)

main()
